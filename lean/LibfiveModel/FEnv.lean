/-
  C12 model: the floating-point environment as seen by libfive's interval arithmetic.
  Boost.Interval's rounded operations change the hardware rounding mode; every entry point is
  supposed to construct the policy's `rounding` object (a `save_state`) which saves the mode in
  its constructor and restores it in its destructor.
-/
namespace Libfive.FEnv

inductive RMode | nearest | down | up | zero
deriving DecidableEq, Repr, Inhabited

/-- the part of the environment a caller can observe: rounding mode + remaining control bits -/
structure Env where
  round : RMode
  ctl : Nat          -- exception masks, precision control, FZ/DAZ ... never written by Boost
deriving DecidableEq, Repr

/-- A primitive segment of a library call.  `body` is what the code between construction and
    destruction of the rounding object does to the rounding mode (`rnd.upward()` etc.). -/
inductive Seg
  | guarded (body : RMode → RMode)   -- a `save_state` object is alive around the body
  | raw (body : RMode → RMode)       -- the body runs on an unprotected rounding object

def Seg.isGuarded : Seg → Bool
  | .guarded _ => true
  | .raw _ => false

/-- save_state: ctor saves, body runs, dtor restores -/
def Seg.run : Seg → Env → Env
  | .guarded body, e =>
    let saved := e.round
    let e' := { e with round := body e.round }
    { e' with round := saved }
  | .raw body, e => { e with round := body e.round }

def runSegs (segs : List Seg) (e : Env) : Env := segs.foldl (fun e s => s.run e) e

/-! ### the regenerated call table -/

/-- (name, touches rounding, has an unguarded rounding-touching overload) -/
abbrev BoostEntry := String × Bool × Bool
/-- (Interval op, Boost entry points it calls, libfive constructs its own guard) -/
abbrev LibOp := String × List String × Bool

def entryOk (boost : List BoostEntry) (call : String) : Bool :=
  match boost.find? (·.1 == call) with
  | some (_, _, unguarded) => !unguarded
  | none => false              -- an entry point the scanner does not know is not trusted

def opGuarded (boost : List BoostEntry) (op : LibOp) : Bool :=
  op.2.2 || op.2.1.all (entryOk boost)

def allGuarded (boost : List BoostEntry) (ops : List LibOp) : Bool :=
  ops.all (opGuarded boost)

/-- segments of one libfive interval operation according to the table: each Boost call is one
    segment whose body may set any mode (`fun _ => up` is the worst case actually observed) -/
def opSegs (boost : List BoostEntry) (op : LibOp) : List Seg :=
  op.2.1.map fun call =>
    if op.2.2 || entryOk boost call then Seg.guarded (fun _ => RMode.up) else Seg.raw (fun _ => RMode.up)

/-- protocol opcode name -> Interval operation name -/
def intervalOpOf (pname : String) : String :=
  match pname with
  | "add" => "operator+" | "sub" => "operator-" | "mul" => "operator*" | "div" => "operator/"
  | "neg" => "operator-" | "nth-root" => "nth_root"
  | s => s

end Libfive.FEnv
