/-
  Executable model of 2D dual contouring on a UNIFORM w×h grid of level-0 leaf cells:
  which segments `Dual<2>::walk<DCContourer>` pushes into `branes`.

  Mirrors (file:line in /repo/libfive):
  * `DCTree<2>::evalLeaf`, src/render/brep/dc/dc_tree.inl:241-274 — corner states → `type`
    (EMPTY / FILLED / AMBIGUOUS), `corner_mask = buildCornerMask(corners)` (dc_tree.inl:567-578:
    bit `i` = corner `i` FILLED), one vertex per marching-squares patch (`vertex_count`);
    corner `c` of a cell is the grid point offset by `c & Axis::X` in x and `c & Axis::Y` in y
    (numbering of marching.cpp:60-70).
  * `Dual<2>::work` / `edge2<A>`, include/libfive/render/brep/dual.hpp:83-110 — for two cells side
    by side in x the call is `load<Axis::Y>({left, right})`, for two cells stacked in y it is
    `load<Axis::X>({lower, upper})`; `edge2` calls `load` only if both are AMBIGUOUS non-branches.
  * `DCContourer::load<A>` / `load<A,D>`, src/render/brep/dc/dc_contourer.cpp:17-103 — this is
    `Libfive.Marching2.load` (LibfiveModel/Contours.lean) with `index = 0`: all leaves have the
    same level, and `std::min_element` returns the FIRST minimal element (dc_contourer.cpp:36-38).
    The AMBIGUOUS test of dc_contourer.cpp:22-26 (= dual.hpp:94-99) is `gload` below.
  * `PerThreadBRep::pushVertex` hands out a fresh index the first time a (cell, patch) vertex is
    used (dc_contourer.cpp:95-99): a vertex is identified with the triple (i, j, patch);
    `vid` is an injective numbering of these triples.

  Core Lean only.
-/
import LibfiveModel.Contours

namespace Libfive.ContourGrid
open Libfive.Marching2

/-- a leaf cell, by the grid coordinates of its corner 0 -/
abbrev Cell := Nat × Nat
/-- a contour vertex: (cell, index of the marching-squares patch in that cell) -/
abbrev Vtx := Cell × Nat

/-- `buildCornerMask` for corner states `a b c d` of corners 0, X, Y, X|Y:
    `corner_mask |= (corners[c] == FILLED) << c` -/
def mask4 (T : Tables) (a b c d : Bool) : Nat :=
  (a.toNat <<< 0) ||| (b.toNat <<< T.axisX) ||| (c.toNat <<< T.axisY) |||
  (d.toNat <<< (T.axisX ||| T.axisY))

/-- `leaf->corner_mask` of cell (i, j) for corner states `s x y = (grid corner (x,y) is FILLED)`:
    corner `c` of the cell is the grid corner at offset (c & X, c & Y) -/
def cellMask (T : Tables) (s : Nat → Nat → Bool) (i j : Nat) : Nat :=
  mask4 T (s i j) (s (i + 1) j) (s i (j + 1)) (s (i + 1) (j + 1))

/-- `type == Interval::AMBIGUOUS` for a leaf whose corners were evaluated: neither `all_empty`
    (mask 0) nor `all_full` (mask 2^4 - 1) -/
def ambiguous (m : Nat) : Bool := m != 0 && m != 15

/-- `edge2<A>` on two leaves + `DCContourer::load<A>`: nothing unless both cells are AMBIGUOUS;
    otherwise `load` with `index = 0` (equal levels) -/
def gload (T : Tables) (A m0 m1 : Nat) : Option ((Nat × Int) × (Nat × Int)) :=
  if ambiguous m0 && ambiguous m1 then load T A 0 m0 m1 else none

/-- one call `edge2<axis>({a, b})` of the dual walk -/
structure Call where
  axis : Nat
  a : Cell
  b : Cell
deriving DecidableEq, Repr

/-- The calls of the dual walk on the uniform w×h grid: every pair of cells sharing a grid edge,
    once.  Side-by-side cells: `edge2<Y>({(i,j), (i+1,j)})` (the cell with the smaller x first,
    dual.hpp:106-107 and the recursion 91-92 with `perp = X`); stacked cells:
    `edge2<X>({(i,j), (i,j+1)})` (dual.hpp:108-109).  (`dualCalls` below is the recursive walk on
    the complete quadtree; the order of the calls is irrelevant for the degree statement.) -/
def calls (T : Tables) (w h : Nat) : List Call :=
  ((List.range h).flatMap fun j => (List.range (w - 1)).map fun i => ⟨T.axisY, (i, j), (i + 1, j)⟩) ++
  ((List.range (h - 1)).flatMap fun j => (List.range w).map fun i => ⟨T.axisX, (i, j), (i, j + 1)⟩)

/-- the brane pushed by one call, as (source vertex, target vertex) = `{vs[!D], vs[D]}` -/
def emit (T : Tables) (s : Nat → Nat → Bool) (c : Call) : Option (Vtx × Vtx) :=
  (gload T c.axis (cellMask T s c.a.1 c.a.2) (cellMask T s c.b.1 c.b.2)).map fun r =>
    ((if r.1.1 = 0 then c.a else c.b, r.1.2.toNat), (if r.2.1 = 0 then c.a else c.b, r.2.2.toNat))

/-- the branes pushed by a sequence of calls, in call order -/
def segsOf (T : Tables) (s : Nat → Nat → Bool) (cs : List Call) : List (Vtx × Vtx) :=
  cs.filterMap (emit T s)

/-- all branes of the grid -/
def gridSegs (T : Tables) (w h : Nat) (s : Nat → Nat → Bool) : List (Vtx × Vtx) :=
  segsOf T s (calls T w h)

/-- the vertices that exist: `vertex_count` = number of patches of the cell's mask -/
def isVertex (T : Tables) (w h : Nat) (s : Nat → Nat → Bool) (v : Vtx) : Prop :=
  v.1.1 < w ∧ v.1.2 < h ∧ v.2 < (T.patches (cellMask T s v.1.1 v.1.2)).length

instance (T : Tables) (w h : Nat) (s : Nat → Nat → Bool) (v : Vtx) : Decidable (isVertex T w h s v) := by
  unfold isVertex; infer_instance

/-- injective numbering of the (cell, patch) triples of a grid of width `w` (at most 2 patches) -/
def vid (w : Nat) (v : Vtx) : Nat := 2 * (v.1.2 * w + v.1.1) + v.2

/-- vertex triples → vertex indices -/
def toNatSegs (w : Nat) (l : List (Vtx × Vtx)) : List Libfive.Contours.Seg :=
  l.map fun e => (vid w e.1, vid w e.2)

/-- the segment list handed to `Contours::collect` -/
def natSegs (T : Tables) (w h : Nat) (s : Nat → Nat → Bool) : List Libfive.Contours.Seg :=
  toNatSegs w (gridSegs T w h s)

/-- the outer ring of grid corners is uniform (in particular: uniformly outside) -/
def BoundaryUniform (w h : Nat) (s : Nat → Nat → Bool) : Prop :=
  ∀ x y, x ≤ w → y ≤ h → (x = 0 ∨ x = w ∨ y = 0 ∨ y = h) → s x y = s 0 0

/-- the outer ring of grid corners is outside the solid -/
def BoundaryOutside (w h : Nat) (s : Nat → Nat → Bool) : Prop :=
  ∀ x y, x ≤ w → y ≤ h → (x = 0 ∨ x = w ∨ y = 0 ∨ y = h) → s x y = false

/-! ### the recursive dual walk on the complete quadtree of depth `d` (2^d × 2^d leaves)

  A subtree is identified with (depth below it, cell coordinates of its lower-left leaf);
  `child(c)` of a branch of depth `d+1` at (x, y) is the subtree of depth `d` at
  `(x + (c & X ? 2^d : 0), y + (c & Y ? 2^d : 0))`. -/

/-- `edge2<Y>({l, r})` for two complete subtrees of depth `d` side by side (r = l shifted by 2^d in
    x): dual.hpp:88-99 with `perp = X`: recurse into `{l.child(X), r.child(0)}` and
    `{l.child(Y|X), r.child(Y)}`; at leaves, the call -/
def edgeY (T : Tables) : Nat → Nat → Nat → List Call
  | 0, x, y => [⟨T.axisY, (x - 1, y), (x, y)⟩]
  | d + 1, x, y => edgeY T d x y ++ edgeY T d x (y + 2 ^ d)

/-- `edge2<X>({lo, up})`, `perp = Y`: recurse into `{lo.child(Y), up.child(0)}` and
    `{lo.child(X|Y), up.child(X)}`.  (x, y) is the lower-left leaf of the second tree; the first
    tree's adjacent leaf is one row below -/
def edgeX (T : Tables) : Nat → Nat → Nat → List Call
  | 0, x, y => [⟨T.axisX, (x, y - 1), (x, y)⟩]
  | d + 1, x, y => edgeX T d x y ++ edgeX T d (x + 2 ^ d) y

/-- all `Dual<2>::work(t)` calls (dual.hpp:104-110) for the branches of the complete quadtree of
    depth `d` at (x, y), children first (the order `Dual<2>::run` guarantees: a branch is worked
    on when all children are done, dual.hpp:376-380) -/
def dualCalls (T : Tables) : Nat → Nat → Nat → List Call
  | 0, _, _ => []
  | d + 1, x, y =>
    dualCalls T d x y ++ dualCalls T d (x + 2 ^ d) y ++
    dualCalls T d x (y + 2 ^ d) ++ dualCalls T d (x + 2 ^ d) (y + 2 ^ d) ++
    -- work(t): edge2<Y>(c0, cX); edge2<Y>(cY, cXY); edge2<X>(c0, cY); edge2<X>(cX, cXY)
    edgeY T d (x + 2 ^ d) y ++ edgeY T d (x + 2 ^ d) (y + 2 ^ d) ++
    edgeX T d x (y + 2 ^ d) ++ edgeX T d (x + 2 ^ d) (y + 2 ^ d)

end Libfive.ContourGrid
