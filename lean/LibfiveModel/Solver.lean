/-
  Executable model of `Solver::findRoot` (libfive/src/solve/solver.cpp as of /repo commits 4e85339 and
  3fa47ee), core Lean only.

  * The evaluator is abstract: `Problem.value` / `Problem.grad` are functions of the evaluator's
    variable state (the position `pos` is fixed for one call and folded into them).
  * The scalar type `V` is abstract too (`Scalar V` is a record of the operations the C++ text
    uses, one field per C++ expression shape), so the same text runs at `Float32` (driver, against
    the real evaluator's answers) and at `FVal` (below: `nan | ninf | fin n | pinf`, fixed-point
    numbers with underflow-to-zero, overflow-to-infinity and IEEE's non-finite algebra), where the
    theorems of `LibfiveTheorems/C17.lean` speak about NaN and ±∞ explicitly.
  * `std::map<Tree::Id, float>` is an association list with unique keys in key order (`Assign V`).
-/
namespace Libfive.Solver

abbrev Var := Nat

/-- `std::map<Tree::Id, float>`: association list, keys unique (a type invariant of std::map). -/
abbrev Assign (V : Type) := List (Var × V)

/-- The operations `findRoot` performs on `float`, one field per C++ expression shape. -/
structure Scalar (V : Type) where
  zero : V
  eps : V                       -- `EPSILON = 1e-6f`
  abs : V → V                   -- `fabs`
  sub : V → V → V               -- `r - r_`
  div : V → V → V               -- `r / slope`, `diff / step`
  half : V → V                  -- `step /= 2`
  sqAdd : V → V → V             -- `d + powf(x, 2.0f)`          (accumulate body)
  subMul : V → V → V → V        -- `v - step * d`                (may be fused by the compiler)
  lt : V → V → Bool             -- `<`
  ge : V → V → Bool             -- `>=`
  geHalf : V → V → Bool         -- `q >= slope * 0.5`            (evaluated in double: exact)
  isFinite : V → Bool
  isZero : V → Bool

/-- The evaluator, abstracted: `value ev` is `e.value(pos, *tape)` and `grad ev` is
    `e.gradient(pos, *tape)` when the evaluator's variable slots hold `ev`.  `grad` returns one
    entry per variable *of the deck* (a variable that does not occur in the expression has none). -/
structure Problem (V : Type) where
  value : Assign V → V
  grad : Assign V → Assign V

variable {V : Type}

def keys (a : Assign V) : List Var := a.map (·.1)

/-- `f` applied `k` times (innermost first): `iter half k step` is the step after `k` halvings. -/
def iter (f : V → V) : Nat → V → V
  | 0, a => a
  | k + 1, a => iter f k (f a)

/-- `for (auto& v : vs) e.setVar(v.first, v.second)` on slots `e`: a slot takes the value listed for
    its variable, slots of unlisted variables keep theirs, listed variables without a slot are
    ignored (`setVar` returns false).  The same shape is the gradient update
    `for (auto& d : gradient) { auto v = ds.find(d.first); if (v != ds.end()) v->second = d.second; }`. -/
def load (e vs : Assign V) : Assign V :=
  e.map fun p => (p.1, (vs.lookup p.1).getD p.2)

/-- `ds.at(x)` (every key of `vars` is a key of `ds` by construction; the default is never used). -/
def dsAt (S : Scalar V) (ds : Assign V) (x : Var) : V := (ds.lookup x).getD S.zero

/-- `v.second - step * ds.at(v.first)` for every entry of `vars`. -/
def stepVars (S : Scalar V) (vars ds : Assign V) (step : V) : Assign V :=
  vars.map fun p => (p.1, S.subMul p.2 step (dsAt S ds p.1))

/-- One accepted backtracking step. -/
structure Accepted (V : Type) where
  converged : Bool
  r : V
  vars : Assign V
  ev : Assign V
  step : V
  halvings : Nat

inductive LS (V : Type) where
  | accepted : Accepted V → LS V
  /-- the guard `!std::isfinite(step) || step == 0` fired after `n` halvings: nothing is stored;
      carries the evaluator's slots as the rejected trials left them -/
  | gaveUp : V → Nat → Assign V → LS V
  /-- fuel exhausted; carries the step the loop would continue with and the halvings done -/
  | outOfFuel : V → Nat → LS V

/-- The four exit conditions of the line search, literally. -/
def exitTest (S : Scalar V) (r slope step r_ : V) : Bool :=
  let diff := S.sub r r_
  S.geHalf (S.div diff step) slope || S.lt (S.abs diff) S.eps ||
    S.lt slope S.eps || S.lt r_ S.eps

/-- `for (float step = r / slope; true; step /= 2) { ... }` with `fuel` trials, as of /repo commit
    4e85339 (guard at the top of the body).  `ev` are the slots at loop entry: every trial
    overwrites the same keys (those of `vars`), so writing the trial into the current slots equals
    writing it into `ev`; `cur` are the current slots (what a give-up leaves behind). -/
def lineSearch (S : Scalar V) (P : Problem V) (r slope : V) (ds vars ev : Assign V) :
    Nat → Nat → V → Assign V → LS V
  | 0, n, step, _ => .outOfFuel step n
  | fuel + 1, n, step, cur =>
    -- if (!std::isfinite(step) || step == 0) { converged = true; break; }
    if !S.isFinite step || S.isZero step then .gaveUp step n cur else
    -- for (auto& v : vars) e.setVar(v.first, v.second - step * ds.at(v.first));
    let ev' := load ev (stepVars S vars ds step)
    let r_ := P.value ev'
    if exitTest S r slope step r_ then
      .accepted { converged := S.lt (S.abs (S.sub r r_)) S.eps, r := r_,
                  -- for (auto& v : vars) v.second -= step * ds.at(v.first);
                  vars := stepVars S vars ds step, ev := ev', step := step, halvings := n }
    else lineSearch S P r slope ds vars ev fuel (n + 1) (S.half step) ev'

/-- PRE-FIX line search (before 4e85339: no guard).  Kept only so that the refuted claims
    (`LibfiveTheorems/C17.lean`, section "pre-fix") stay checked theorems. -/
def lineSearchOld (S : Scalar V) (P : Problem V) (r slope : V) (ds vars ev : Assign V) :
    Nat → Nat → V → LS V
  | 0, n, step => .outOfFuel step n
  | fuel + 1, n, step =>
    let ev' := load ev (stepVars S vars ds step)
    let r_ := P.value ev'
    if exitTest S r slope step r_ then
      .accepted { converged := S.lt (S.abs (S.sub r r_)) S.eps, r := r_,
                  vars := stepVars S vars ds step, ev := ev', step := step, halvings := n }
    else lineSearchOld S P r slope ds vars ev fuel (n + 1) (S.half step)

/-- One log entry per accepted step (used by the theorems and the driver). -/
structure LogEntry (V : Type) where
  step : V
  ds : Assign V
  halvings : Nat

structure St (V : Type) where
  converged : Bool := false
  r : V
  gas : Nat                       -- `unsigned gas`
  ds : Assign V
  vars : Assign V                 -- the `Solution` being built (masked variables erased)
  ev : Assign V                   -- the evaluator's variable slots
  iters : Nat := 0                -- outer loop bodies executed
  log : List (LogEntry V) := []   -- accepted steps, most recent first
  gaveUp : Bool := false          -- the last line search ended through the guard

inductive Outcome (V : Type) where
  | returned : St V → Outcome V
  /-- the line search of outer iteration `st.iters` did not end within the inner fuel -/
  | hung : St V → V → Nat → Outcome V
  | outerFuel : St V → Outcome V

def allSmall (S : Scalar V) (ds : Assign V) : Bool := ds.all fun p => S.lt (S.abs p.2) S.eps

def slopeOf (S : Scalar V) (ds : Assign V) : V := ds.foldl (fun acc p => S.sqAdd acc p.2) S.zero

/-- `while (!converged && fabs(r) >= EPSILON && gas && --gas) { ... }` (as of /repo commit 3fa47ee) -/
def outer (S : Scalar V) (P : Problem V) (innerFuel : Nat) : Nat → St V → Outcome V
  | 0, st => .outerFuel st
  | fuel + 1, st =>
    if st.converged then .returned st else
    if !(S.ge (S.abs st.r) S.eps) then .returned st else
    if st.gas = 0 then .returned st else                       -- `gas &&`
    if st.gas - 1 = 0 then .returned { st with gas := 0 } else -- `--gas`
    -- evaluate and update our local gradient
    let ds := load st.ds (P.grad st.ev)
    -- break if all of our gradients are nearly zero
    if allSmall S ds then .returned { st with gas := st.gas - 1, ds := ds } else
    let slope := slopeOf S ds
    match lineSearch S P st.r slope ds st.vars st.ev innerFuel 0 (S.div st.r slope) st.ev with
    | .outOfFuel step n => .hung { st with gas := st.gas - 1, ds := ds } step n
    | .gaveUp _ _ cur =>
      -- converged = true; r and vars keep their values; the slots keep the last rejected trial
      outer S P innerFuel fuel
        { st with converged := true, gas := st.gas - 1, ds := ds, ev := cur, iters := st.iters + 1,
                  gaveUp := true }
    | .accepted a =>
      outer S P innerFuel fuel
        { converged := a.converged, r := a.r, gas := st.gas - 1, ds := ds, vars := a.vars, ev := a.ev,
          iters := st.iters + 1,
          log := { step := a.step, ds := ds, halvings := a.halvings } :: st.log }

/-- The public overload: load all initial values into the evaluator, erase masked variables,
    build the zero-initialised derivative map, take the first residual. `ev0` are the evaluator's
    slots (the deck's variables) before the call. -/
def initSt (S : Scalar V) (P : Problem V) (ev0 init : Assign V) (mask : List Var) (gas : Nat) : St V :=
  let ev := load ev0 init
  let vars := init.filter fun p => !mask.contains p.1
  { r := P.value ev, gas := gas, ds := vars.map fun p => (p.1, S.zero), vars := vars, ev := ev }

def findRoot (S : Scalar V) (P : Problem V) (innerFuel outerFuel : Nat)
    (ev0 init : Assign V) (mask : List Var) (gas : Nat) : Outcome V :=
  outer S P innerFuel outerFuel (initSt S P ev0 init mask gas)

/-! ## `FVal`: a concrete scalar with NaN and ±∞

`fin n` is the fixed-point number `n · 2^-40` (unbounded magnitude: ±∞ arise from division by
zero and from infinite operands, not from overflow); quotients and products are truncated toward
zero (so repeated halving *reaches* zero, like IEEE underflow); the non-finite cases follow IEEE 754 (`∞ - ∞`, `0 · ∞`, `0 / 0`, `∞ / ∞` are NaN,
every comparison with NaN is false, `x / 0 = ±∞`).  There is one zero (no `-0`). -/

inductive FVal where
  | nan | ninf | fin (n : Int) | pinf
  deriving DecidableEq, Repr, Inhabited

namespace FVal

def one : Int := 1099511627776                       -- 2^40
def norm (n : Int) : FVal := fin n

def neg : FVal → FVal
  | nan => nan | ninf => pinf | pinf => ninf | fin n => fin (-n)

def add : FVal → FVal → FVal
  | nan, _ | _, nan => nan
  | pinf, ninf | ninf, pinf => nan
  | pinf, _ | _, pinf => pinf
  | ninf, _ | _, ninf => ninf
  | fin a, fin b => norm (a + b)

def sub (a b : FVal) : FVal := add a (neg b)

/-- sign of a value: -1, 0, 1 (NaN handled by the callers) -/
def sgn : FVal → Int
  | nan => 0 | ninf => -1 | pinf => 1 | fin n => if n > 0 then 1 else if n < 0 then -1 else 0

def ofSign (s : Int) : FVal := if s > 0 then pinf else if s < 0 then ninf else nan

def mul : FVal → FVal → FVal
  | nan, _ | _, nan => nan
  | fin a, fin b => norm ((a * b).tdiv one)
  | a, b => ofSign (sgn a * sgn b)        -- at least one infinite operand; 0 · ∞ = NaN

def div : FVal → FVal → FVal
  | nan, _ | _, nan => nan
  | fin a, fin b => if b = 0 then ofSign (sgn (fin a)) else norm ((a * one).tdiv b)
  | fin _, _ => fin 0                       -- finite / ±∞
  | a, fin b => ofSign (sgn a * (if b < 0 then -1 else 1))   -- ±∞ / finite (zero counts as +0)
  | _, _ => nan                             -- ∞ / ∞

def half : FVal → FVal
  | fin n => fin (n.tdiv 2)
  | x => x

def abs : FVal → FVal
  | nan => nan | ninf => pinf | pinf => pinf | fin n => if n < 0 then fin (-n) else fin n

def lt : FVal → FVal → Bool
  | nan, _ | _, nan => false
  | ninf, ninf => false | ninf, _ => true
  | _, ninf => false
  | pinf, _ => false
  | fin _, pinf => true
  | fin a, fin b => decide (a < b)

def ge : FVal → FVal → Bool
  | nan, _ | _, nan => false
  | a, b => !(lt a b)

/-- `q >= slope * 0.5`, exactly -/
def geHalf : FVal → FVal → Bool
  | fin q, fin s => decide (s ≤ 2 * q)
  | q, s => ge q s                          -- an infinite or NaN operand: halving does not matter

def isFinite : FVal → Bool
  | fin _ => true
  | _ => false

def isZero : FVal → Bool
  | fin n => decide (n = 0)
  | _ => false

/-- `EPSILON`: 2^-20 ≈ 0.95e-6 -/
def eps : FVal := fin 1048576

def scalar : Scalar FVal where
  zero := fin 0
  eps := eps
  abs := abs
  sub := sub
  div := div
  half := half
  sqAdd := fun acc x => add acc (mul x x)
  subMul := fun v s d => sub v (mul s d)
  lt := lt
  ge := ge
  geHalf := geHalf
  isFinite := isFinite
  isZero := isZero

/-- integer `k` as an `FVal` -/
def ofInt (k : Int) : FVal := norm (k * one)

end FVal

end Libfive.Solver
