/-
  Float32 / Float (binary64) instances of the derivative-kernel operations, used by the
  correspondence drivers of C06 and C15.  Core Lean only.
-/
import LibfiveModel.Deriv
import LibfiveModel.F32

namespace Libfive

def dopsF32 : DOps Float32 where
  zero := 0
  one := 1
  two := 2
  add := (· + ·)
  sub := (· - ·)
  mul := (· * ·)
  div := (· / ·)
  neg := fun a => -a
  sqrt := Float32.sqrt
  sin := Float32.sin
  cos := Float32.cos
  exp := Float32.exp
  pow := Float32.pow
  lt := fun a b => a < b
  isZero := fun a => a == 0
  isNaN := Float32.isNaN
  oddInt := fun b => let q := b / 2; b - 2 * (if q < 0 then q.ceil else q.floor) == 1

def dopsF64 : DOps Float where
  zero := 0
  one := 1
  two := 2
  add := (· + ·)
  sub := (· - ·)
  mul := (· * ·)
  div := (· / ·)
  neg := fun a => -a
  sqrt := Float.sqrt
  sin := Float.sin
  cos := Float.cos
  exp := Float.exp
  pow := Float.pow
  lt := fun a b => a < b
  isZero := fun a => a == 0
  isNaN := Float.isNaN
  oddInt := fun b => let q := b / 2; b - 2 * (if q < 0 then q.ceil else q.floor) == 1

def V3.map {α β : Type} (g : α → β) (v : V3 α) : V3 β := ⟨g v.x, g v.y, g v.z⟩

/-- bitwise equality of float vectors except that `+0 == -0` and NaN == NaN (Eigen `==` plus NaN) -/
def f32eq (a b : Float32) : Bool := a == b || (a.isNaN && b.isNaN)
def v3eq (a b : V3 Float32) : Bool := a.x == b.x && a.y == b.y && a.z == b.z
def v3eqN (a b : V3 Float32) : Bool := f32eq a.x b.x && f32eq a.y b.y && f32eq a.z b.z
def v3sub (a b : V3 Float32) : V3 Float32 := ⟨a.x - b.x, a.y - b.y, a.z - b.z⟩
/-- Eigen's unary minus on this build is `0 - a`?  For `Vector3f` (`-eps`) it is a sign flip
    (scalar path, xor with the sign bit). -/
def v3neg (a : V3 Float32) : V3 Float32 := ⟨-a.x, -a.y, -a.z⟩
def v3normZero (a : V3 Float32) : Bool := Float32.sqrt (a.x * a.x + a.y * a.y + a.z * a.z) == 0

end Libfive
