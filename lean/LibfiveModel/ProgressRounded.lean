/-
  Model of the ROUNDED computation in `ProgressHandler::run`
  (libfive/src/render/brep/progress.cpp), for C20:

      float accum = 0.0f;
      auto itr = phases.begin();
      do {
          if (itr->total)
              accum += itr->weight * itr->counter.load() / (float)itr->total;
      } while (itr++ != current_phase);
      const float next = total_weight ? (accum / total_weight) : 0.0;
      if (next != prev) { progress(next); prev = next; }

  `weight` is `unsigned`, `counter`/`total` are `uint64_t`, `total_weight` is `unsigned`.  So
    * `weight * counter`     is an exact integer product (in `uint64_t`; no wrap-around is ASSUMED),
                             converted to `float` for the division          — one rounding
    * `(float)total`                                                        — one rounding
    * `… / …`                                                               — one rounding
    * `accum += …`                                                          — one rounding
    * `total_weight` converted to `float`                                   — one rounding
    * `accum / total_weight`                                                — one rounding
  (the ternary has type `double`, the `float` quotient is widened and narrowed back: exact;
  `progress(double)` receives the widened `float`: exact).

  The rounding function `rnd : K → K` is a parameter; nothing is assumed about it here.  The exact
  model (`rnd = id`) is `Libfive.Progress.fraction` in LibfiveModel/Progress.lean.

  Core Lean only.
-/
import LibfiveModel.Progress

namespace Libfive.ProgressRounded
open Libfive.Progress (Phase)

section defs
variable {K : Type} [Add K] [Div K] [OfNat K 0] [NatCast K]

/-- `weight * counter / (float)total` as the compiler evaluates it:
    `rnd( rnd(weight·counter) / rnd(total) )`, the product being an exact integer. -/
def rterm (rnd : K → K) (p : Phase) : K :=
  rnd (rnd ((p.weight * p.counter : Nat) : K) / rnd ((p.total : Nat) : K))

/-- one iteration of the `do … while`: `if (itr->total) accum += term;` -/
def rstep (rnd : K → K) (acc : K) (p : Phase) : K :=
  if p.total = 0 then acc else rnd (acc + rterm rnd p)

/-- the loop, over the phases `phases.begin() … current_phase` INCLUSIVE (in that order),
    starting from `accum = 0.0f` -/
def raccum (rnd : K → K) (ps : List Phase) : K := ps.foldl (rstep rnd) 0

/-- `next = total_weight ? accum / total_weight : 0.0`; `W` is `total_weight`, `ps` the phases up
    to and including the current one -/
def rfraction (rnd : K → K) (W : Nat) (ps : List Phase) : K :=
  if W = 0 then 0 else rnd (raccum rnd ps / rnd ((W : Nat) : K))

/-- `if (next != prev) { progress(next); prev = next; }` over the successive values of `next`:
    the list of arguments `progress` is called with -/
def reportedVals [DecidableEq K] : K → List K → List K
  | _, [] => []
  | prev, next :: rest =>
    if next = prev then reportedVals prev rest else next :: reportedVals next rest

/-- the arguments of the `progress(next)` calls of the loop, when the successive wake-ups of the
    thread see the snapshots `ss` (each one the list of phases up to the current one); `prev`
    starts at `0.0f` -/
def reported [DecidableEq K] (rnd : K → K) (W : Nat) (ss : List (List Phase)) : List K :=
  reportedVals 0 (ss.map (rfraction rnd W))

end defs

/-! ### how a later snapshot relates to an earlier one -/

/-- same phase seen later, `total` already stored: weight and total unchanged, counter not smaller
    (`tick` only adds) -/
def PhaseLe (p q : Phase) : Prop :=
  p.weight = q.weight ∧ p.total = q.total ∧ p.counter ≤ q.counter

/-- same phase seen later: either `total` was still 0 the first time (`nextPhase` advances
    `current_phase` under the lock but stores `total` after releasing it, so the thread can see
    the new phase with `total == 0`), or `PhaseLe` -/
def PhaseStep (p q : Phase) : Prop := p.total = 0 ∨ PhaseLe p q

/-- snapshot `qs` is not earlier than `ps`: the current phase has not moved back (`qs` is `ps`'s
    phases, each seen later, followed by zero or more further phases) -/
def Later : List Phase → List Phase → Prop
  | [], _ => True
  | _ :: _, [] => False
  | p :: ps, q :: qs => PhaseStep p q ∧ Later ps qs

/-- same current phase, every phase `PhaseLe` (lists of equal length, related pointwise) -/
def SamePhaseLe : List Phase → List Phase → Prop
  | [], [] => True
  | p :: ps, q :: qs => PhaseLe p q ∧ SamePhaseLe ps qs
  | _, _ => False

/-- a sequence of snapshots in the order the thread takes them -/
def Ordered : List (List Phase) → Prop
  | [] => True
  | [_] => True
  | a :: b :: rest => Later a b ∧ Ordered (b :: rest)

/-- sum of the weights of a list of phases (`total_weight` is this sum over ALL phases) -/
def weightSum : List Phase → Nat
  | [] => 0
  | p :: ps => p.weight + weightSum ps

end Libfive.ProgressRounded
