/-
  Executable model of the collection phase of 2D contouring:
  `Contours::collect` in libfive/src/render/brep/contours.cpp.

  Input : the directed segments (`segs.branes`, pairs of vertex indices) in the order in which
          `BRep<2>::collect` lays them out (child 0's segments, then child 1's, ...).
  Output: the polylines (`this->contours`), as lists of vertex indices, in output order.

  The two `std::map<uint32_t,uint32_t>` objects are modelled as association lists with exactly
  the four operations the code uses: `find` (`List.lookup`), `insert` (which does NOT overwrite an
  existing key), `erase` and `operator[]=` (which does).  `std::vector<std::list<uint32_t>>` is a
  list of lists.  Core Lean only.
-/
namespace Libfive.Contours

abbrev Seg := Nat × Nat
abbrev Map := List (Nat × Nat)

/-- `std::map::insert({k,v})`: no effect if the key is already present -/
def minsert (m : Map) (k v : Nat) : Map :=
  if (m.lookup k).isSome then m else (k, v) :: m

/-- `std::map::erase(key)` -/
def merase (m : Map) (k : Nat) : Map := m.filter fun e => !(e.1 == k)

/-- `m[k] = v` -/
def mset (m : Map) (k v : Nat) : Map := (k, v) :: merase m k

/-- state of the first loop: `contours`, `heads`, `tails` -/
structure St where
  chains : List (List Nat) := []
  heads : Map := []
  tails : Map := []

/-- one iteration of `for (auto& s : segs.branes)` -/
def step (st : St) (s : Seg) : St :=
  match st.tails.lookup s.1 with
  | some t =>
    -- attach to the back of a tail
    { st with chains := st.chains.modify t (· ++ [s.2]),
              tails := merase (minsert st.tails s.2 t) s.1 }
  | none =>
    match st.heads.lookup s.2 with
    | some h =>
      -- prepend to a head
      { st with chains := st.chains.modify h (s.1 :: ·),
                heads := merase (minsert st.heads s.1 h) s.2 }
    | none =>
      -- start a new multi-segment line
      { chains := st.chains ++ [[s.1, s.2]],
        heads := mset st.heads s.1 st.chains.length,
        tails := mset st.tails s.2 st.chains.length }

def chainAll (segs : List Seg) : St := segs.foldl step {}

def hd (l : List Nat) : Nat := l.headD 0
def lst (l : List Nat) : Nat := l.getLastD 0

/-- the inner `while (true)` of the welding loop.  `acc` is `this->contours.back()` (after the
    `pop_back`), `pr` is `processed`, `t` is `target`.  Every iteration marks one unprocessed chain,
    so `fuel = number of chains` is never exhausted (`weldLoop_fuel` in LibfiveProofs/Contours). -/
def weldLoop (chains : List (List Nat)) (heads : Map) :
    Nat → Nat → List Bool → List Nat → List Nat × List Bool
  | 0, _, pr, acc => (acc, pr)
  | fuel + 1, t, pr, acc =>
    let c := chains.getD t []
    let acc := acc ++ c
    let pr := pr.set t true
    match heads.lookup (lst c) with
    | some h => if pr.getD h true then (acc, pr) else weldLoop chains heads fuel h pr acc.dropLast
    | none => (acc, pr)

/-- one iteration of the outer `for (i ...)` of the welding loop -/
def weldStep (chains : List (List Nat)) (heads : Map) (s : List Bool × List (List Nat)) (i : Nat) :
    List Bool × List (List Nat) :=
  if s.1.getD i true then s
  else
    let r := weldLoop chains heads chains.length i s.1 []
    (r.2, s.2 ++ [r.1])

def weld (chains : List (List Nat)) (heads : Map) : List (List Nat) :=
  ((List.range chains.length).foldl (weldStep chains heads)
    (List.replicate chains.length false, [])).2

/-- `Contours::collect` on the collected segment list -/
def collect (segs : List Seg) : List (List Nat) :=
  let st := chainAll segs
  weld st.chains st.heads

/-- consecutive pairs of a polyline = the segments it uses -/
def pairs (l : List Nat) : List Seg := l.zip l.tail

/-- a polyline is closed (`seg.front() == seg.back()` in `saveSVG`) -/
def closed (l : List Nat) : Bool := l.length ≥ 2 && hd l == lst l

/-! ### helpers for the correspondence driver (not part of the modelled code) -/

/-- canonical rotation of a closed polyline `[v0,…,vk,v0]`: drop the repeated end point and rotate
    the smallest vertex to the front (ties: lexicographically smallest rotation) -/
def rotations (l : List Nat) : List (List Nat) :=
  (List.range l.length).map fun k => l.drop k ++ l.take k

def lexLt : List Nat → List Nat → Bool
  | [], [] => false
  | [], _ => true
  | _, [] => false
  | a :: as, b :: bs => if a < b then true else if b < a then false else lexLt as bs

def canonCycle (l : List Nat) : List Nat :=
  if closed l then
    let body := l.dropLast
    let m := body.foldl Nat.min (hd body)
    -- candidate start positions: where the minimum sits (one position for a simple cycle)
    let idxs := (List.range body.length).filter fun k => body.getD k 0 == m
    let cands := idxs.map fun k => body.drop k ++ body.take k
    cands.foldl (fun best r => if lexLt r best then r else best) (cands.headD body)
  else l

/-- in/out-degree precondition of `collect_closed`, as a decidable check for the driver -/
def nodupB : List Nat → Bool
  | [] => true
  | a :: l => !l.contains a && nodupB l

def degreeOK (segs : List Seg) : Bool :=
  nodupB (segs.map (·.1)) && nodupB (segs.map (·.2)) &&
  (segs.map (·.1)).all (fun v => (segs.map (·.2)).contains v) &&
  (segs.map (·.2)).all (fun v => (segs.map (·.1)).contains v)

end Libfive.Contours

/-! ## 2D marching table and the contourer's orientation rule

  Model of how `DCTree<2>::evalLeaf` reads `MarchingTable<2>::v` and of the index arithmetic of
  `DCContourer::load<A>` / `load<A,D>` (dc_contourer.cpp) for two leaf cells of level 0.  The tables
  are parameters: the theorems instantiate them with the tables dumped from the running library. -/
namespace Libfive.Marching2

structure Tables where
  v : List (List (List (Int × Int)))
  e : List (List Int)
  p : List (List Int)
  axisX : Nat
  axisY : Nat

/-- `MarchingTable<2>::e(a)[b]` -/
def Tables.eAt (T : Tables) (a b : Nat) : Int := (T.e.getD a []).getD b (-1)

/-- `MarchingTable<2>::p(mask)[edge]` (the code asserts `edge != -1`) -/
def Tables.pAt (T : Tables) (mask : Nat) (edge : Int) : Int :=
  if edge < 0 then -1 else (T.p.getD mask []).getD edge.toNat (-1)

/-- the patches of a corner mask as `evalLeaf` iterates them: patches until the first one whose
    first edge is -1, edges of a patch until the first -1 -/
def Tables.patches (T : Tables) (mask : Nat) : List (List (Nat × Nat)) :=
  ((T.v.getD mask []).takeWhile fun q => (q.headD (-1, -1)).1 != -1).map fun q =>
    (q.takeWhile fun ed => ed.1 != -1).map fun ed => (ed.1.toNat, ed.2.toNat)

/-- `corner_mask & (1 << i)` -/
def filled (mask c : Nat) : Bool := mask.testBit c

/-- One call `DCContourer::load<A>(ts)` with `ts[0]`, `ts[1]` ambiguous level-0 leaves of corner
    masks `m0`, `m1`; `index` is the cell whose corner states are read (`std::min_element` over the
    levels).  Result: `none` if no segment is pushed, else `((source cell, patch), (target cell, patch))`
    — the pushed brane is `{vs[!D], vs[D]}`. -/
def load (T : Tables) (A : Nat) (index : Nat) (m0 m1 : Nat) : Option ((Nat × Int) × (Nat × Int)) :=
  let perp := (T.axisX ||| T.axisY) ^^^ A
  let corner := if index = 0 then perp else 0
  let mi := if index = 0 then m0 else m1
  let a := filled mi corner
  let b := filled mi (corner ||| A)
  if a == b then none
  else
    let D : Bool := !((a && A == T.axisY) || (b && A == T.axisX))
    let es : Int × Int :=
      if (D ^^ (A == T.axisX)) then (T.eAt 3 (3 ^^^ A), T.eAt A 0)
      else (T.eAt (3 ^^^ A) 3, T.eAt 0 A)
    let v0 := T.pAt m0 es.1
    let v1 := T.pAt m1 es.2
    if D then some ((0, v0), (1, v1)) else some ((1, v1), (0, v0))

/-- the two cells agree on the states of the two corners they share -/
def consistent (T : Tables) (A : Nat) (m0 m1 : Nat) : Bool :=
  let perp := (T.axisX ||| T.axisY) ^^^ A
  filled m0 perp == filled m1 0 && filled m0 (perp ||| A) == filled m1 A

/-- The four sides of a cell: (axis of the dual edge, position of this cell in `ts`).
    `Dual<2>::work` / `edge2` put the cell with the smaller coordinate first. -/
def sides (T : Tables) : List (Nat × Nat) :=
  [(T.axisY, 0), (T.axisY, 1), (T.axisX, 0), (T.axisX, 1)]

/-- what `load` does to the cell of mask `m` on one of its sides when the neighbour has mask `nb`:
    `some (true, k)` = patch k's vertex is the source of the pushed segment, `some (false, k)` = target -/
def sideEmit (T : Tables) (side : Nat × Nat) (index m nb : Nat) : Option (Bool × Int) :=
  let r := if side.2 = 0 then load T side.1 index m nb else load T side.1 index nb m
  match r with
  | none => none
  | some (src, dst) => if src.1 = side.2 then some (true, src.2) else some (false, dst.2)

def consistentSide (T : Tables) (side : Nat × Nat) (m nb : Nat) : Bool :=
  if side.2 = 0 then consistent T side.1 m nb else consistent T side.1 nb m

/-- number of sides of a cell of mask `m` on which patch `k`'s vertex is the source (`true`) /
    target (`false`) of a segment, the neighbour on each side being given by `nbs` -/
def roleCount (T : Tables) (m : Nat) (k : Nat) (asSource : Bool) (nbs idxs : List Nat) : Nat :=
  (((sides T).zip (nbs.zip idxs)).filter fun x =>
    sideEmit T x.1 x.2.2 m x.2.1 == some (asSource, (k : Int))).length

end Libfive.Marching2
