/-
  Model of libfive's expression trees and of the rewriting done while building them
  (libfive/src/tree/tree.cpp: Tree::unary, Tree::binary, remap, apply, flatten; data.cpp flags).

  * Constants live in an abstract type `C` (Float32 bit patterns in the driver, any type with
    exact folding in the theorems); `ConstOps C` is what the code does with them.
  * Pointer identity of the C++ (`lhs.id() == rhs.id()`) is modelled by structural equality.
    Pointer-equal implies structurally equal but not conversely, so the correspondence run
    compares model and implementation after a (proved sound) canonicalisation that identifies
    `mul a a` with `square a` and `min a a` with `a`.
  Core Lean only.
-/
import LibfiveModel.Op

namespace Libfive

inductive Expr (C : Type)
  | const (c : C)
  | x | y | z
  | var (v : Nat)
  | un (op : Op) (a : Expr C)
  | bin (op : Op) (a b : Expr C)
  | remap (t x' y' z' : Expr C)
  | apply (t : Expr C) (v : Nat) (value : Expr C)
  | oracle (k : Nat)
  | invalid
deriving DecidableEq, Repr, Inhabited

/-- what the tree code does with constants -/
structure ConstOps (C : Type) where
  isZero : C → Bool
  isOne : C → Bool
  isNegOne : C → Bool
  foldUn : Op → C → C          -- constant folding runs the point evaluator on the constants
  foldBin : Op → C → C → C
  zero : C
  one : C
  lt : C → C → Bool            -- float `<` (false on NaN)
  eqC : C → C → Bool           -- float `==`
  fma : C → C → C → C          -- `c + a * b` as compiled (GCC contracts it to one fused operation)

/-- interpretation of constants and opcodes in a value type -/
structure Interp (C α : Type) where
  const : C → α
  un : Op → α → α
  bin : Op → α → α → α
  orc : Nat → α → α → α → α     -- oracle k at (x, y, z)
  bad : α                       -- meaning of the invalid tree (never evaluated)

structure Env (α : Type) where
  x : α
  y : α
  z : α
  vars : Nat → α

namespace Expr
variable {C α : Type}

/-- Mathematical meaning: remap is composition with the coordinate maps (arguments evaluated in
    the outer environment); apply is lexically scoped substitution of a free variable. -/
def denote (I : Interp C α) : Expr C → Env α → α
  | const c, _ => I.const c
  | x, e => e.x
  | y, e => e.y
  | z, e => e.z
  | var v, e => e.vars v
  | un op a, e => I.un op (denote I a e)
  | bin op a b, e => I.bin op (denote I a e) (denote I b e)
  | remap t x' y' z', e =>
    denote I t { e with x := denote I x' e, y := denote I y' e, z := denote I z' e }
  | apply t v value, e =>
    let val := denote I value e
    denote I t { e with vars := fun w => if w = v then val else e.vars w }
  | oracle k, e => I.orc k e.x e.y e.z
  | invalid, _ => I.bad

/-! ### flags (TreeData::compute_flags) -/

def hasXYZ : Expr C → Bool
  | x | y | z => true
  | un _ a => hasXYZ a
  | bin _ a b => hasXYZ a || hasXYZ b
  | remap t x' y' z' => hasXYZ x' || hasXYZ y' || hasXYZ z' || hasXYZ t
  | apply t _ value => hasXYZ value || hasXYZ t
  | _ => false

def hasOracle : Expr C → Bool
  | oracle _ => true
  | un _ a => hasOracle a
  | bin _ a b => hasOracle a || hasOracle b
  | remap t x' y' z' => hasOracle x' || hasOracle y' || hasOracle z' || hasOracle t
  | apply t _ value => hasOracle value || hasOracle t
  | _ => false

def hasRemap : Expr C → Bool
  | remap _ _ _ _ => true
  | apply _ _ _ => true
  | un _ a => hasRemap a
  | bin _ a b => hasRemap a || hasRemap b
  | _ => false

/-! ### Tree::unary -/

def mkUnary (K : ConstOps C) (op : Op) (a : Expr C) : Expr C :=
  if op.args ≠ some 1 then invalid
  else match a with
    | const c => const (K.foldUn op c)
    | _ =>
      if op = Op.abs then
        match a with
        | un Op.abs _ => a
        | un Op.square _ => a
        | _ => un op a
      else if op = Op.neg then
        match a with
        | un Op.neg a' => a'
        | _ => un op a
      else un op a

/-! ### Tree::binary
    The order of the tests is the order in tree.cpp (an `else if` chain per opcode: e.g. for
    OP_ADD the "rhs is a negation" rule is only reached when lhs is not a constant). -/

def isNegOf : Expr C → Option (Expr C)
  | un Op.neg a => some a
  | _ => none

def constOf : Expr C → Option C
  | const c => some c
  | _ => none

/-- `fuel` bounds the add↔sub ping-pong of the negation rules (each step removes one `neg`). -/
def mkBinaryF [DecidableEq C] (K : ConstOps C) : Nat → Op → Expr C → Expr C → Expr C
  | fuel, op, a, b =>
  if op.args ≠ some 2 then invalid
  else match constOf a, constOf b with
  | some ca, some cb => const (K.foldBin op ca cb)
  | ca, cb =>
    let dflt := bin op a b
    if op = Op.div then
      match cb with
      | some c => if K.isOne c then a else dflt
      | none => dflt
    else if op = Op.add then
      match ca with
      | some c => if K.isZero c then b else dflt
      | none =>
        match cb with
        | some c => if K.isZero c then a else dflt
        | none =>
          -- `else if (lhs is a unary op) { if (it is a negation) … }`: ANY unary lhs ends the chain
          match a with
          | un opa a' =>
            if opa = Op.neg then (match fuel with
              | 0 => dflt
              | f + 1 => mkBinaryF K f Op.sub b a')
            else dflt
          | _ =>
            match isNegOf b with
            | some b' => (match fuel with
                | 0 => dflt
                | f + 1 => mkBinaryF K f Op.sub a b')
            | none => dflt
    else if op = Op.sub then
      match ca with
      | some c => if K.isZero c then mkUnary K Op.neg b else dflt
      | none =>
        match cb with
        | some c => if K.isZero c then a else dflt
        | none =>
          match isNegOf b with
          | some b' => (match fuel with
              | 0 => dflt
              | f + 1 => mkBinaryF K f Op.add a b')
          | none => dflt
    else if op = Op.mul then
      match ca with
      | some c =>
        if K.isZero c then a else if K.isOne c then b
        else if K.isNegOne c then mkUnary K Op.neg b else dflt
      | none =>
        match cb with
        | some c =>
          if K.isZero c then b else if K.isOne c then a
          else if K.isNegOne c then mkUnary K Op.neg a else dflt
        | none => if a = b then mkUnary K Op.square a else dflt
    else if op = Op.nthRoot ∨ op = Op.pow then
      match cb with
      | some c => if K.isOne c then a else dflt
      | none => dflt
    else if op = Op.min ∨ op = Op.max then
      if a = b then a else dflt
    else dflt

/-- number of nodes; enough fuel for the negation rules -/
def size : Expr C → Nat
  | un _ a => size a + 1
  | bin _ a b => size a + size b + 1
  | remap t x' y' z' => size t + size x' + size y' + size z' + 1
  | apply t _ value => size t + size value + 1
  | _ => 1

def mkBinary [DecidableEq C] (K : ConstOps C) (op : Op) (a b : Expr C) : Expr C :=
  mkBinaryF K (size a + size b) op a b

/-! ### Tree::remap / Tree::apply -/

def mkRemap [DecidableEq C] (t x' y' z' : Expr C) : Expr C :=
  if x' = x ∧ y' = y ∧ z' = z then t
  else if hasXYZ t || hasOracle t then remap t x' y' z'
  else t

/-- `Tree::apply` throws unless the target is a free variable; the model takes the variable id -/
def mkApply (t : Expr C) (v : Nat) (value : Expr C) : Expr C := apply t v value

/-! ### Tree::flatten
    Environment-passing form of the explicit task stack: `sx sy sz` are what X/Y/Z currently
    stand for and `sv` what each free variable stands for (the `MapPointer` of the C++).  Remap
    arguments and apply values are flattened in the OUTER environment, the body in the extended
    one.  An oracle under a non-identity coordinate map becomes a transformed oracle, written
    here as a `remap` node directly around the oracle. -/

structure Subst (C : Type) where
  sx : Expr C
  sy : Expr C
  sz : Expr C
  sv : Nat → Option (Expr C)

def Subst.id : Subst C := { sx := x, sy := y, sz := z, sv := fun _ => none }

def flattenS [DecidableEq C] (K : ConstOps C) : Expr C → Subst C → Expr C
  | const c, _ => const c
  | x, s => s.sx
  | y, s => s.sy
  | z, s => s.sz
  | var v, s => (s.sv v).getD (var v)
  | un op a, s =>
    let a' := flattenS K a s
    if a' = a then un op a else mkUnary K op a'
  | bin op a b, s =>
    let a' := flattenS K a s
    let b' := flattenS K b s
    if a' = a ∧ b' = b then bin op a b else mkBinary K op a' b'
  | remap t x' y' z', s =>
    let nx := flattenS K x' s
    let ny := flattenS K y' s
    let nz := flattenS K z' s
    flattenS K t { s with sx := nx, sy := ny, sz := nz }
  | apply t v value, s =>
    let nv := flattenS K value s
    flattenS K t { s with sv := fun w => if w = v then some nv else s.sv w }
  -- `oracle->remap(self, X', Y', Z')`: a transformed oracle, i.e. the oracle composed with
  -- the current coordinate maps (C16 covers the oracle side of that equation)
  | oracle k, s =>
    if s.sx = x ∧ s.sy = y ∧ s.sz = z then oracle k else remap (oracle k) s.sx s.sy s.sz
  | invalid, _ => invalid

def flatten [DecidableEq C] (K : ConstOps C) (t : Expr C) : Expr C :=
  if hasRemap t then flattenS K t Subst.id else t

end Expr
end Libfive
