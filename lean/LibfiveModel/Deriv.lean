/-
  Model of libfive's derivative evaluators:
    * `dk`        — the per-opcode forward-mode kernels of
                    libfive/src/eval/eval_deriv_array.cpp (`DerivArrayEvaluator::operator()`),
    * `derivRow`  — the tape walk of `DerivArrayEvaluator::derivs` for ONE derivative lane
                    (one (row, column) entry of the 3×N arrays `d(clause)`),
    * `jac*`      — the slot packing of `JacobianEvaluator::gradient` (eval_jacobian.cpp),
    * `feat*`     — the feature machinery of eval_feature.cpp / feature.cpp.

  Every kernel of eval_deriv_array.cpp is *lane-wise*: entry (r, c) of `d(id)` is a function of
  entries (r, c) of `d(a)`, `d(b)` and of column c of the value rows only.  The model is therefore
  written for one scalar lane; the three rows dx, dy, dz (and, in the Jacobian evaluator, the
  3·N variable lanes) are independent runs of the same function with different seeds.

  Polymorphic in the scalar `α`: run at `Float32` by the correspondence driver, at `ℝ` by the
  theorems (LibfiveTheorems/C06.lean).  Core Lean only.
-/
import LibfiveModel.Tape

namespace Libfive

/-- scalar operations the derivative kernels use (Eigen array expressions) -/
structure DOps (α : Type) where
  zero : α
  one : α
  two : α
  add : α → α → α
  sub : α → α → α
  mul : α → α → α
  div : α → α → α
  neg : α → α
  sqrt : α → α
  sin : α → α
  cos : α → α
  exp : α → α
  /-- `pow(x, y)` (Eigen's `ArrayBase::pow`, libm `powf` for nth-root) -/
  pow : α → α → α
  lt : α → α → Bool
  /-- `x == 0` -/
  isZero : α → Bool
  isNaN : α → Bool
  /-- `fmodf(x, 2.0f) == 1.0f` -/
  oddInt : α → Bool

variable {α : Type}

/-- One lane of `DerivArrayEvaluator::operator()(op, id, a, b)`.
    `av bv` : operand values (`v.row(a)`, `v.row(b)`), `ov` : the clause's *output value row*
    `v.row(id)` (read by the OP_SQRT kernel only), `ad bd` : operand derivative lanes,
    `clearVars` : the `clear_vars` flag (CONST_VAR clause). -/
def dk (O : DOps α) (clearVars : Bool) (op : Op) (av bv ov ad bd : α) : α :=
  match op with
  | .add => O.add ad bd
  -- od = bd.rowwise()*av + ad.rowwise()*bv
  | .mul => O.add (O.mul bd av) (O.mul ad bv)
  -- (av < bv).select(ad, bd)      : selection by comparison of VALUES; tie -> b
  | .min => if O.lt av bv then ad else bd
  -- (av < bv).select(bd, ad)      : tie -> a
  | .max => if O.lt av bv then bd else ad
  | .sub => O.sub ad bd
  -- (ad*bv - bd*av) / bv.pow(2)
  | .div => O.div (O.sub (O.mul ad bv) (O.mul bd av)) (O.pow bv O.two)
  -- (ad*bv - bd*av) / (av.pow(2) + bv.pow(2))
  | .atan2 => O.div (O.sub (O.mul ad bv) (O.mul bd av)) (O.add (O.pow av O.two) (O.pow bv O.two))
  -- ad * (bv * av.pow(bv - 1))    : the `bd` term is dropped ("bd is always zero")
  | .pow => O.mul ad (O.mul bv (O.pow av (O.sub bv O.one)))
  -- base = (av < 0 && fmodf(bv, 2) == 1) ? -av : av          (since 426a6f0)
  -- (ad == 0).select(0, ad * (powf(base, 1/bv - 1) / bv))
  | .nthRoot =>
    let base := if O.lt av O.zero && O.oddInt bv then O.neg av else av
    if O.isZero ad then O.zero
    else O.mul ad (O.div (O.pow base (O.sub (O.div O.one bv) O.one)) bv)
  | .mod => ad
  | .nanfill => if O.isNaN av then bd else ad
  | .compare => O.zero
  -- ad * av * 2
  | .square => O.mul (O.mul ad av) O.two
  -- (av < 0 || ad == 0).select(0, ad / (2 * ov))
  | .sqrt => if O.lt av O.zero || O.isZero ad then O.zero else O.div ad (O.mul O.two ov)
  | .neg => O.neg ad
  | .sin => O.mul ad (O.cos av)
  | .cos => O.mul ad (O.neg (O.sin av))
  -- ad * pow(1/cos(av), 2)
  | .tan => O.mul ad (O.pow (O.div O.one (O.cos av)) O.two)
  -- ad / sqrt(1 - pow(av, 2))
  | .asin => O.div ad (O.sqrt (O.sub O.one (O.pow av O.two)))
  | .acos => O.div ad (O.neg (O.sqrt (O.sub O.one (O.pow av O.two))))
  | .atan => O.div ad (O.add (O.pow av O.two) O.one)
  | .log => O.div ad av
  | .exp => O.mul ad (O.exp av)
  -- (av > 0).select(ad, -ad)
  | .abs => if O.lt O.zero av then ad else O.neg ad
  -- ad / -av.pow(2)
  | .recip => O.div ad (O.neg (O.pow av O.two))
  | .constVar => if clearVars then O.zero else ad
  | _ => O.zero

/-- `DerivArrayEvaluator::derivs`, derivative loop, one lane: the value pass has already filled
    `v` (every slot is written once, so the kernel sees final values); clauses are stored
    root-first and evaluated tail first. -/
def derivRow (O : DOps α) (cv : Bool) (v : Nat → α) : List Clause → (Nat → α) → (Nat → α)
  | [], d => d
  | c :: rest, d =>
    let d' := derivRow O cv v rest d
    upd d' c.id (dk O cv c.op (v c.a) (v c.b) (v c.id) (d' c.a) (d' c.b))

/-- strict twin for the driver (see `evalListS`) -/
def derivRowS (O : DOps α) (cv : Bool) (v : Nat → α) : List Clause → Slots α → Slots α
  | [], d => d
  | c :: rest, d =>
    let d' := derivRowS O cv v rest d
    ⟨upd d'.get c.id (dk O cv c.op (v c.a) (v c.b) (v c.id) (d'.get c.a) (d'.get c.b))⟩

theorem derivRowS_get (O : DOps α) (cv : Bool) (v : Nat → α) (t : List Clause) (d : Nat → α) :
    (derivRowS O cv v t ⟨d⟩).get = derivRow O cv v t d := by
  induction t with
  | nil => rfl
  | cons c rest ih => simp only [derivRowS, derivRow, ih]

/-- Tape evaluation with an arbitrary per-clause semantics `g` (no oracles): the shape the
    gradient theorems are proved for.  `evalListG_eq_evalList` identifies it with `evalList`. -/
def evalListG (g : Clause → α → α → α) : List Clause → (Nat → α) → (Nat → α)
  | [], v => v
  | c :: rest, v =>
    let v' := evalListG g rest v
    upd v' c.id (g c (v' c.a) (v' c.b))

theorem evalListG_eq_evalList (ev : Op → α → α → α) (orc : Nat → α) (t : List Clause)
    (h : ∀ c ∈ t, c.op ≠ Op.oracle) (v : Nat → α) :
    evalListG (fun c => ev c.op) t v = evalList ev orc t v := by
  induction t with
  | nil => rfl
  | cons c rest ih =>
    have hc := h c (List.mem_cons_self ..)
    have ih' := ih (fun d hd => h d (List.mem_cons_of_mem _ hd))
    simp only [evalListG, evalList, evalClause, ih', hc, if_false]

/-- Semantics of a tape whose CONST_VAR clauses are *barriers*: their output is held at the value
    `frozen id` while the free variables move (what `with_const_vars` means for d/dvar). -/
def gCV (ev : Op → α → α → α) (frozen : Nat → α) (c : Clause) : α → α → α :=
  if c.op = Op.constVar then fun _ _ => frozen c.id else ev c.op

/-- the three spatial seed lanes of the constructor (`d(X).row(0) = 1` …): lane `r ∈ {0,1,2}` -/
def spatialSeed (O : DOps α) (X Y Z : Nat) (r : Nat) : Nat → α :=
  fun s => if (r = 0 ∧ s = X) ∨ (r = 1 ∧ s = Y) ∨ (r = 2 ∧ s = Z) then O.one else O.zero

/-! ### Jacobian packing (eval_jacobian.cpp) -/

/-- number of variable lanes per pass: 3 rows × N columns -/
def jacLanes (N : Nat) : Nat := 3 * N

/-- where variable number `i` (position in `deck->vars.left`) is evaluated:
    (pass, row, column) = (i / 3N, (i mod 3N) mod 3, (i mod 3N) / 3) -/
def jacSlot (N i : Nat) : Nat × Nat × Nat :=
  (i / jacLanes N, (i % jacLanes N) % 3, (i % jacLanes N) / 3)

/-- inverse of `jacSlot` -/
def jacIndex (N : Nat) (s : Nat × Nat × Nat) : Nat := s.1 * jacLanes N + (3 * s.2.2 + s.2.1)

/-- seed of lane (pass, r, c): `run()` clears every `d(i)` (including X, Y, Z), then
    `d(var_i)(count % 3, count / 3) = 1` for the variables of this pass. -/
def jacSeed (O : DOps α) (N : Nat) (vars : Array Nat) (s : Nat × Nat × Nat) : Nat → α :=
  fun slot =>
    if s.2.1 < 3 ∧ s.2.2 < N ∧ vars[jacIndex N s]? = some slot then O.one else O.zero

/-- `JacobianEvaluator::gradient`: `j[i] = ds(i % 3, i / 3)` of the pass that holds variable `i`;
    `clear_vars = true`; all columns hold the same point, so every lane sees the same values `v`. -/
def jacGradient (O : DOps α) (N : Nat) (vars : Array Nat) (v : Nat → α) (t : List Clause) (root : Nat) :
    List α :=
  (List.range vars.size).map fun i => derivRow O true v t (jacSeed O N vars (jacSlot N i)) root

/-- array twin of `derivRow` for the driver (tapes with thousands of clauses): slot arrays of
    size `n`, every clause id `< n` -/
def derivRowA (O : DOps α) (cv : Bool) (v : Nat → α) : List Clause → Array α → Array α
  | [], d => d
  | c :: rest, d =>
    let d' := derivRowA O cv v rest d
    d'.setIfInBounds c.id (dk O cv c.op (v c.a) (v c.b) (v c.id) (d'.getD c.a O.zero) (d'.getD c.b O.zero))

theorem derivRowA_size (O : DOps α) (cv : Bool) (v : Nat → α) (t : List Clause) (d : Array α) :
    (derivRowA O cv v t d).size = d.size := by
  induction t with
  | nil => rfl
  | cons c rest ih => simp [derivRowA, ih]

/-- the array twin computes `derivRow` (for slots inside the array, clause ids inside the array) -/
theorem derivRowA_get (O : DOps α) (cv : Bool) (v : Nat → α) (t : List Clause) (d : Array α)
    (hid : ∀ c ∈ t, c.id < d.size) (s : Nat) :
    (derivRowA O cv v t d).getD s O.zero = derivRow O cv v t (fun k => d.getD k O.zero) s := by
  induction t generalizing s with
  | nil => rfl
  | cons c rest ih =>
    have hrest : ∀ c' ∈ rest, c'.id < d.size := fun c' h => hid c' (List.mem_cons_of_mem _ h)
    have hc : c.id < (derivRowA O cv v rest d).size := by
      rw [derivRowA_size]; exact hid c (List.mem_cons_self ..)
    have key : ∀ k, derivRow O cv v rest (fun k => d.getD k O.zero) k =
        (derivRowA O cv v rest d).getD k O.zero := fun k => (ih hrest k).symm
    simp only [derivRowA, derivRow, upd]
    rw [key c.a, key c.b, key s]
    generalize derivRowA O cv v rest d = D at hc
    by_cases hs : s = c.id
    · subst hs
      simp [Array.getD_eq_getD_getElem?, hc]
    · have hs' : c.id ≠ s := fun h => hs h.symm
      simp [Array.getD_eq_getD_getElem?, hs, hs']

/-- `jacGradient` through the array twin (what the driver runs) -/
def jacGradientA (O : DOps α) (N : Nat) (vars : Array Nat) (v : Nat → α) (t : List Clause) (root n : Nat) :
    List α :=
  (List.range vars.size).map fun i =>
    (derivRowA O true v t (Array.ofFn (n := n) fun k => jacSeed O N vars (jacSlot N i) k.val)).getD root O.zero

/-- number of columns evaluated by the pass that holds `count` variables: `(count + 2) / 3` -/
def jacColumns (count : Nat) : Nat := (count + 2) / 3

/-! ### Features (eval_feature.cpp, feature.cpp) -/

/-- a 3-vector -/
structure V3 (α : Type) where
  x : α
  y : α
  z : α
deriving Repr, Inhabited, BEq, DecidableEq

/-- `Feature`: a derivative and the epsilons needed to select it -/
structure Feat (α : Type) where
  deriv : V3 α
  eps : List (V3 α)
deriving Repr, Inhabited

/-- The geometry of feature.cpp, as parameters.  `push es e` is `Feature::push(e)` acting on the
    epsilon list (`none` = incompatible; it never touches `deriv`); `normZero e` is
    `e.norm() == 0`; `veq` is Eigen's `==` on vectors (used by the epsilon merge of the
    two-parent constructor); `sub`/`negv` are vector subtraction / negation; `dedup` is the
    sort + unique + collapse epilogue. -/
structure FeatOracle (α : Type) where
  push : List (V3 α) → V3 α → Option (List (V3 α))
  normZero : V3 α → Bool
  veq : V3 α → V3 α → Bool
  sub : V3 α → V3 α → V3 α
  negv : V3 α → V3 α

/-- `Feature::push(const Feature& other)`: push every epsilon of `other`, fail on the first failure -/
def FeatOracle.pushAll (F : FeatOracle α) (es : List (V3 α)) : List (V3 α) → Option (List (V3 α))
  | [] => some es
  | e :: rest => match F.push es e with
    | none => none
    | some es' => F.pushAll es' rest

/-- `Feature(d, a, b)`: epsilons of `a`, then those of `b` not already present (`==`) -/
def FeatOracle.mergeEps (F : FeatOracle α) (ea eb : List (V3 α)) : List (V3 α) :=
  eb.foldl (fun acc e => if acc.any (fun e' => F.veq e e') then acc else acc ++ [e]) ea

/-- body of `LOOP2` for a tied min / max clause; `epsilon` is `bd - ad` for min, `ad - bd` for max -/
def FeatOracle.tiePair (F : FeatOracle α) (isMin : Bool) (fa fb : Feat α) : List (Feat α) :=
  let epsilon := if isMin then F.sub fb.deriv fa.deriv else F.sub fa.deriv fb.deriv
  if F.normZero epsilon then
    (if !fa.eps.isEmpty then [fa] else []) ++ (if !fb.eps.isEmpty then [fb] else []) ++
    (if fa.eps.isEmpty && fb.eps.isEmpty then [fa] else [])
  else
    match F.pushAll fa.eps fb.eps with
    | none => []
    | some combined =>
      (match F.push combined epsilon with
        | some es => [{ deriv := fa.deriv, eps := es }]
        | none => []) ++
      (match F.push combined (F.negv epsilon) with
        | some es => [{ deriv := fb.deriv, eps := es }]
        | none => [])

/-- all pairs, `a`-major (`LOOP2`, and the pair order of the binary array-wise path:
    lane `i` holds `(_ads[i / |bds|], _bds[i % |bds|])`) -/
def pairs {β : Type} (as bs : List β) : List (β × β) :=
  as.flatMap fun a => bs.map fun b => (a, b)

/-- round `count` up to the SIMD block (`ArrayEvaluator::setCount`) -/
def simdRound (simd count : Nat) : Nat :=
  if simd = 0 then count else ((count + simd - 1) / simd) * simd

/-- kernel on all three rows of one lane -/
def dk3 (O : DOps α) (cv : Bool) (op : Op) (av bv ov : α) (ad bd : V3 α) : V3 α :=
  ⟨dk O cv op av bv ov ad.x bd.x, dk O cv op av bv ov ad.y bd.y, dk O cv op av bv ov ad.z bd.z⟩

/-- `count` of the last `run()` of an array-wise path that processed `n` lanes in chunks of `N` -/
def lastChunk (N n : Nat) : Nat := if n = 0 then 0 else if n % N = 0 then N else n % N

/-- Unary array-wise path (after the fixes aa9f57c / 3ea66fb): per chunk of `count ≤ N` lanes the
    code replicates `v(a, 0)` and `v(id, 0)` into lanes `< count`, writes `d(a).col(lane)`, calls
    `setCount(count)` and runs the kernel over `count_simd ≥ count` lanes (`le_simdRound`), then
    reads lanes `< count` only.  Every lane it reads was therefore computed in this call from
    `v(a,0)`, `v(id,0)` and the operand feature: no scratch of earlier calls is read.
    Returns the features and the `count_simd` it leaves behind. -/
def featUnary (O : DOps α) (cv : Bool) (N simd cs : Nat) (c : Clause)
    (v : Nat → α) (fa : List (Feat α)) : List (Feat α) × Nat :=
  (fa.map fun f =>
     ({ deriv := dk3 O cv c.op (v c.a) (v c.b) (v c.id) f.deriv f.deriv, eps := f.eps } : Feat α),
   if fa.length = 0 then cs else simdRound simd (lastChunk N fa.length))

/-- Binary array-wise path (same discipline since aa9f57c): lane `i` holds the pair
    `(_ads[i / |bds|], _bds[i % |bds|])`; epsilons are merged WITHOUT a compatibility check. -/
def featBinary (O : DOps α) (F : FeatOracle α) (cv : Bool) (N simd cs : Nat) (c : Clause)
    (v : Nat → α) (fa fb : List (Feat α)) : List (Feat α) × Nat :=
  ((pairs fa fb).map fun (f, g) =>
     ({ deriv := dk3 O cv c.op (v c.a) (v c.b) (v c.id) f.deriv g.deriv,
        eps := F.mergeEps f.eps g.eps } : Feat α),
   if (pairs fa fb).length = 0 then cs else simdRound simd (lastChunk N (pairs fa fb).length))

/-- `FeatureEvaluator::operator()` before deduplication; `cs` is `count_simd` on entry (only
    passed through / overwritten, never read). -/
def featClauseRaw (O : DOps α) (F : FeatOracle α) (cv : Bool) (N simd cs : Nat)
    (c : Clause) (v : Nat → α) (f : Nat → List (Feat α)) : List (Feat α) × Nat :=
  let av := v c.a
  let bv := v c.b
  if c.op = Op.min then
    if O.lt av bv || c.a == c.b then (f c.a, cs)
    else if O.lt bv av then (f c.b, cs)
    else ((pairs (f c.a) (f c.b)).flatMap fun (x, y) => F.tiePair true x y, cs)
  else if c.op = Op.max then
    if O.lt av bv || c.a == c.b then (f c.b, cs)
    else if O.lt bv av then (f c.a, cs)
    else ((pairs (f c.a) (f c.b)).flatMap fun (x, y) => F.tiePair false x y, cs)
  else if c.op.args = some 1 then featUnary O cv N simd cs c v (f c.a)
  else if c.op.args = some 2 then featBinary O F cv N simd cs c v (f c.a) (f c.b)
  else ([], cs)

/-- state of the feature walk: per-slot feature lists and `count_simd` -/
structure FeatState (α : Type) where
  f : Nat → List (Feat α)
  countSimd : Nat

/-- The feature walk over a (specialised) tape.  `dedup` is the epilogue of each clause
    (sort, unique, collapse). -/
def featList (O : DOps α) (F : FeatOracle α) (dedup : List (Feat α) → List (Feat α)) (cv : Bool)
    (N simd : Nat) (v : Nat → α) : List Clause → FeatState α → FeatState α
  | [], st => st
  | c :: rest, st =>
    let st' := featList O F dedup cv N simd v rest st
    let r := featClauseRaw O F cv N simd st'.countSimd c v st'.f
    { f := upd st'.f c.id (dedup r.1), countSimd := r.2 }

/-- Specification side: the set of *branch gradients* of every slot.  Leaves have their seed;
    a strictly ordered min/max passes the gradients of the smaller/larger operand; a tied one
    passes those of either operand (one choice per occurrence); every other clause applies the
    kernel to a branch gradient of each operand. -/
def BranchSet (O : DOps α) (cv : Bool) (v : Nat → α) (seed : Nat → V3 α) :
    List Clause → Nat → V3 α → Prop
  | [], k, g => g = seed k
  | c :: rest, k, g =>
    if k = c.id then
      (if c.op = Op.min then
        (if O.lt (v c.a) (v c.b) = true then BranchSet O cv v seed rest c.a g
         else if O.lt (v c.b) (v c.a) = true then BranchSet O cv v seed rest c.b g
         else BranchSet O cv v seed rest c.a g ∨ BranchSet O cv v seed rest c.b g)
       else if c.op = Op.max then
        (if O.lt (v c.a) (v c.b) = true then BranchSet O cv v seed rest c.b g
         else if O.lt (v c.b) (v c.a) = true then BranchSet O cv v seed rest c.a g
         else BranchSet O cv v seed rest c.a g ∨ BranchSet O cv v seed rest c.b g)
       else if c.op.args = some 1 then
        ∃ ga, BranchSet O cv v seed rest c.a ga ∧
          g = dk3 O cv c.op (v c.a) (v c.b) (v c.id) ga ga
       else
        ∃ ga gb, BranchSet O cv v seed rest c.a ga ∧ BranchSet O cv v seed rest c.b gb ∧
          g = dk3 O cv c.op (v c.a) (v c.b) (v c.id) ga gb)
    else BranchSet O cv v seed rest k g

/-- `FeatureEvaluator::features`: keep the first occurrence of every distinct derivative -/
def uniqDerivs (veq : V3 α → V3 α → Bool) (fs : List (Feat α)) : List (V3 α) :=
  fs.foldl (fun acc f => if acc.any (fun d => veq d f.deriv) then acc else acc ++ [f.deriv]) []

/-- `isInside` on the unambiguous cases -/
def insideBySign (lt : α → α → Bool) (zero value : α) : Option Bool :=
  if lt value zero then some true else if lt zero value then some false else none

/-- `isInside` at value 0 from the root's features; `check f d` is `f.check(d)` -/
def insideByFeatures (normPos : V3 α → Bool) (negv : V3 α → V3 α) (check : Feat α → V3 α → Bool)
    (fs : List (Feat α)) : Bool :=
  match fs with
  | [f] => normPos f.deriv
  | _ =>
    let pos := fs.any fun f => check f f.deriv
    let neg := fs.any fun f => check f (negv f.deriv)
    !(pos && !neg)

/-- `FeatureEvaluator::isInside` -/
def isInsideM (lt : α → α → Bool) (zero value : α) (normPos : V3 α → Bool) (negv : V3 α → V3 α)
    (check : Feat α → V3 α → Bool) (fs : List (Feat α)) : Bool :=
  match insideBySign lt zero value with
  | some b => b
  | none => insideByFeatures normPos negv check fs

end Libfive
