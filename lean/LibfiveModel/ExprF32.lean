/-
  Executable instances of the expression model:
  * `F32K` — what the tree code does with single-precision constants (bit patterns),
  * `canon` — AC-canonical form used to compare model and implementation structurally
    (operand order of commutative operators depends on pointer values in the C++),
  * `RefVal` — double-precision reference evaluation carrying a forward error bound for a
    single-precision evaluation of the same expression ("stable sample points").
  Core Lean only.
-/
import LibfiveModel.Expr
import LibfiveModel.F32
import LibfiveModel.Tape

namespace Libfive

abbrev E32 := Expr UInt32

def F32K : ConstOps UInt32 where
  isZero c := F32.ofBits c == 0
  isOne c := F32.ofBits c == 1
  isNegOne c := F32.ofBits c == -1
  foldUn op c := (F32.ev op (F32.ofBits c) 0).toBits
  foldBin op a b := (F32.ev op (F32.ofBits a) (F32.ofBits b)).toBits
  zero := (0 : Float32).toBits
  one := (1 : Float32).toBits
  lt a b := F32.ofBits a < F32.ofBits b
  eqC a b := F32.ofBits a == F32.ofBits b
  -- the product of two floats is exact in double; one rounding to double, one to single
  fma a b c := ((F32.ofBits a).toFloat * (F32.ofBits b).toFloat + (F32.ofBits c).toFloat).toFloat32.toBits

/-- remaining budget after visiting `t` as a TREE (0 = exceeded).  Trees parsed from DAG dumps are
    shared in memory, so their tree size can be exponential in the number of DAG nodes; every
    driver guards its traversals with this bounded walk. -/
def budgetAfter : Nat → E32 → Nat
  | 0, _ => 0
  | b + 1, .un _ a => budgetAfter b a
  | b + 1, .bin _ a c => budgetAfter (budgetAfter b a) c
  | b + 1, .remap t a c d => budgetAfter (budgetAfter (budgetAfter (budgetAfter b t) a) c) d
  | b + 1, .apply t _ a => budgetAfter (budgetAfter b t) a
  | b + 1, _ => b

def smallerThan (limit : Nat) (t : E32) : Bool := budgetAfter limit t != 0

/-- tree size of `flatten t` (saturating), computed without building it -/
def flatSizeEst : E32 → Nat → Nat → Nat → (Nat → Option Nat) → Nat
  | .x, sx, _, _, _ => sx
  | .y, _, sy, _, _ => sy
  | .z, _, _, sz, _ => sz
  | .var v, _, _, _, sv => (sv v).getD 1
  | .un _ a, sx, sy, sz, sv => min 100000000 (1 + flatSizeEst a sx sy sz sv)
  | .bin _ a b, sx, sy, sz, sv => min 100000000 (1 + flatSizeEst a sx sy sz sv + flatSizeEst b sx sy sz sv)
  | .remap t a b c, sx, sy, sz, sv =>
    flatSizeEst t (flatSizeEst a sx sy sz sv) (flatSizeEst b sx sy sz sv) (flatSizeEst c sx sy sz sv) sv
  | .apply t v a, sx, sy, sz, sv =>
    let n := flatSizeEst a sx sy sz sv
    flatSizeEst t sx sy sz (fun w => if w = v then some n else sv w)
  | .oracle _, sx, sy, sz, _ => min 100000000 (1 + sx + sy + sz)
  | _, _, _, _, _ => 1

namespace Canon

/-- a total order on expressions: compare printed forms (only used to sort operand lists) -/
partial def key : E32 → String
  | .const c => s!"c{c.toNat}"
  | .x => "x" | .y => "y" | .z => "z"
  | .var v => s!"v{v}"
  | .un op a => s!"({op.pname} {key a})"
  | .bin op a b => s!"({op.pname} {key a} {key b})"
  | .remap t a b c => s!"(remap {key t} {key a} {key b} {key c})"
  | .apply t v a => s!"(apply {key t} {v} {key a})"
  | .oracle k => s!"o{k}"
  | .invalid => "invalid"

def isAC (op : Op) : Bool := op == Op.add || op == Op.mul || op == Op.min || op == Op.max

/-- operands of a maximal chain of the same associative-commutative operator -/
partial def chain (op : Op) : E32 → List E32
  | .bin op' a b => if op' == op then chain op a ++ chain op b else [.bin op' a b]
  | t => [t]

def insertSorted (k : E32 → String) (t : E32) : List E32 → List E32
  | [] => [t]
  | u :: rest => if k t ≤ k u then t :: u :: rest else u :: insertSorted k t rest

def sortE (l : List E32) : List E32 :=
  ((l.map fun t => (key t, t)).mergeSort (fun a b => a.1 ≤ b.1)).map (·.2)

def dedupAdj : List E32 → List E32
  | a :: b :: rest => if a == b then dedupAdj (b :: rest) else a :: dedupAdj (b :: rest)
  | l => l

def rebuild (op : Op) : List E32 → E32
  | [] => .invalid
  | [t] => t
  | t :: rest => .bin op t (rebuild op rest)

/-- `square a` is written `mul a a` everywhere -/
partial def expandSquare : E32 → E32
  | .un Op.square a => let a' := expandSquare a; Expr.bin Op.mul a' a'
  | .un op a => Expr.un op (expandSquare a)
  | .bin op a b => Expr.bin op (expandSquare a) (expandSquare b)
  | .remap t a b c => Expr.remap (expandSquare t) (expandSquare a) (expandSquare b) (expandSquare c)
  | .apply t v a => Expr.apply (expandSquare t) v (expandSquare a)
  | t => t

/-- chains of + * min max are flattened, sorted, (min/max) deduplicated, rebuilt right-nested -/
partial def canonAC : E32 → E32
  | .un op a => Expr.un op (canonAC a)
  | .bin op a b =>
    if isAC op then
      let items : List E32 := (chain op (Expr.bin op a b)).map canonAC
      -- canonicalising an operand can expose a nested chain of the same operator again
      let items : List E32 := items.flatMap (chain op)
      -- constants of a chain are folded together (whether the C++ folds them depends on whether
      -- the pointer order makes them adjacent)
      let consts : List UInt32 := items.filterMap fun t => match t with
        | Expr.const c => some c
        | _ => none
      let others : List E32 := items.filter fun t => match t with
        | Expr.const _ => false
        | _ => true
      let items : List E32 := match consts with
        | [] => others
        | c :: cs => Expr.const (cs.foldl (fun acc d => F32K.foldBin op acc d) c) :: others
      let items := sortE items
      let items := if op.isIdempotent then dedupAdj items else items
      rebuild op items
    else Expr.bin op (canonAC a) (canonAC b)
  | .remap t a b c => Expr.remap (canonAC t) (canonAC a) (canonAC b) (canonAC c)
  | .apply t v a => Expr.apply (canonAC t) v (canonAC a)
  | t => t

/-- AC-canonical form used to compare model and implementation -/
def canon (t : E32) : E32 := canonAC (expandSquare t)

/-- structural equality up to a few ulps on constants (constant folding of transcendental
    opcodes goes through Eigen's kernels in the C++ and through libm here) -/
partial def approxEq : E32 → E32 → Bool
  | .const a, .const b =>
    a == b ||
      (let fa := (F32.ofBits a).toFloat
       let fb := (F32.ofBits b).toFloat
       (fa - fb).abs ≤ 1e-5 * (if fa.abs > 1 then fa.abs else 1) || (fa.isNaN && fb.isNaN))
  | .un o a, .un o' a' => o == o' && approxEq a a'
  | .bin o a b, .bin o' a' b' => o == o' && approxEq a a' && approxEq b b'
  | .remap t a b c, .remap t' a' b' c' => approxEq t t' && approxEq a a' && approxEq b b' && approxEq c c'
  | .apply t v a, .apply t' v' a' => v == v' && approxEq t t' && approxEq a a'
  | s, t => s == t

end Canon

/-! ### decompiling a tape back into an expression (C01) -/

structure DeckInfo where
  x : Nat
  y : Nat
  z : Nat
  consts : List (Nat × UInt32)
  vars : List (Nat × Nat)        -- slot, variable index

def leafExpr (d : DeckInfo) (slot : Nat) : E32 :=
  if slot = d.x then .x else if slot = d.y then .y else if slot = d.z then .z
  else match d.consts.find? (·.1 = slot) with
    | some (_, c) => .const c
    | none => match d.vars.find? (·.1 = slot) with
      | some (_, v) => .var v
      | none => .invalid

/-- expression computed in each slot by a clause list stored root-first (tail evaluated first).
    Slots are kept in an `Array` (data, not a closure: see the eta-expansion trap in Tape.lean). -/
def decompileA (d : DeckInfo) (n : Nat) (t : List Clause) : Array E32 :=
  let init : Array E32 := (Array.range (n + 1)).map (leafExpr d)
  t.reverse.foldl (fun (m : Array E32) (c : Clause) =>
    let e : E32 :=
      if c.op = Op.oracle then Expr.oracle c.a
      else match c.op.args with
        | some 1 => Expr.un c.op (m.getD c.a Expr.invalid)
        | _ => Expr.bin c.op (m.getD c.a Expr.invalid) (m.getD c.b Expr.invalid)
    if c.id < m.size then m.set! c.id e else m) init

def decompile (d : DeckInfo) (T : TapeM) : E32 :=
  let n := (T.t.map (·.id)).foldl max (max T.root (max d.x (max d.y d.z)))
  let n := (d.consts.map (·.1)).foldl max n
  let n := (d.vars.map (·.1)).foldl max n
  (decompileA d n T.t).getD T.root Expr.invalid

/-! ### reference evaluation with a forward error bound -/

structure RefVal where
  v : Float
  err : Float          -- bound on |single-precision evaluation − v| (absolute)
  bad : Bool           -- unstable: near a discontinuity / domain edge / overflow / NaN
deriving Inhabited

namespace RefVal

def u : Float := 5.9604645e-8        -- 2^-24

def mk' (v err : Float) (bad : Bool) : RefVal :=
  let bad := bad || v.isNaN || err.isNaN || v.abs > 1e30 || err > 1e30
  ⟨v, err, bad⟩

def ofF32 (f : Float32) : RefVal := mk' f.toFloat 0 false

def bin (op : Op) (a b : RefVal) : RefVal :=
  let bad := a.bad || b.bad
  match op with
  | .add => let r := a.v + b.v; mk' r (a.err + b.err + u * (a.v.abs + b.v.abs)) bad
  | .sub => let r := a.v - b.v; mk' r (a.err + b.err + u * (a.v.abs + b.v.abs)) bad
  | .mul => let r := a.v * b.v
            mk' r (a.v.abs * b.err + b.v.abs * a.err + a.err * b.err + u * r.abs) bad
  | .div =>
    let r := a.v / b.v
    if b.v.abs ≤ 4 * b.err + 1e-30 then mk' r 0 true
    else mk' r ((a.err + r.abs * b.err) / (b.v.abs - b.err) + u * r.abs) bad
  | .min => mk' (if b.v < a.v then b.v else a.v) (if a.err > b.err then a.err else b.err) bad
  | .max => mk' (if a.v < b.v then b.v else a.v) (if a.err > b.err then a.err else b.err) bad
  | .atan2 =>
    let d := a.v * a.v + b.v * b.v
    let r := Float.atan2 a.v b.v
    -- discontinuous across the negative x axis and at the origin
    if d ≤ 1e-12 || (b.v < 4 * b.err && a.v.abs ≤ 4 * a.err + 1e-6) then mk' r 0 true
    else mk' r ((a.v.abs * b.err + b.v.abs * a.err) / d * 1.5 + 8 * u) bad
  | .pow =>
    let n := b.v.round
    let r := Float.pow a.v n
    if b.err > 0 || (n < 0 && a.v.abs ≤ 4 * a.err + 1e-6) then mk' r 0 true
    else if n == 0 then mk' 1 0 (bad || a.v.abs ≤ 4 * a.err + 1e-9)
    else mk' r (n.abs * (Float.pow a.v.abs (n - 1)) * a.err * 1.5 + 16 * u * r.abs * n.abs) bad
  | .nthRoot =>
    let k := b.v.round
    let odd := (k.toUInt64 % 2 == 1)
    if b.err > 0 || k < 1 || a.v.abs ≤ 8 * a.err + 1e-6 || (a.v < 0 && !odd) then mk' 0 0 true
    else
      let m := Float.pow a.v.abs (1 / k)
      let r := if a.v < 0 then -m else m
      mk' r (a.err * m / (k * a.v.abs) * 1.5 + 16 * u * m) bad
  | .mod =>
    if b.v.abs ≤ 4 * b.err + 1e-6 then mk' 0 0 true
    else
      let q := a.v / b.v
      let qerr := (a.err + q.abs * b.err) / (b.v.abs - b.err) + 4 * u * q.abs
      let fl := q.floor
      let distInt := if q - fl < fl + 1 - q then q - fl else fl + 1 - q
      let r := a.v - b.v * fl
      if distInt ≤ 8 * qerr + 1e-5 || q.abs > 1e6 then mk' r 0 true
      else mk' r (a.err + fl.abs * b.err + 8 * u * (a.v.abs + (b.v * fl).abs)) bad
  | .nanfill => if a.bad then mk' a.v 0 true else a
  | .compare =>
    if (a.v - b.v).abs ≤ 4 * (a.err + b.err) + 1e-30 then mk' 0 0 true
    else mk' (if a.v < b.v then -1 else 1) 0 bad
  | _ => mk' 0 0 true

def un (op : Op) (a : RefVal) : RefVal :=
  let bad := a.bad
  match op with
  | .neg => mk' (-a.v) a.err bad
  | .abs => mk' a.v.abs a.err bad
  | .square => let r := a.v * a.v; mk' r (2 * a.v.abs * a.err + a.err * a.err + u * r.abs) bad
  | .sqrt =>
    if a.v ≤ 8 * a.err + 1e-12 then mk' a.v.sqrt 0 true
    else let r := a.v.sqrt; mk' r (a.err / (2 * (a.v - a.err).sqrt) + 4 * u * r) bad
  | .sin => mk' a.v.sin (a.err + 8 * u) (bad || a.v.abs > 1e4)
  | .cos => mk' a.v.cos (a.err + 8 * u) (bad || a.v.abs > 1e4)
  | .tan =>
    let r := a.v.tan
    if r.abs > 1e3 || a.v.abs > 1e4 then mk' r 0 true
    else mk' r (a.err * (1 + r * r) * 2 + 16 * u * (1 + r.abs)) bad
  | .asin =>
    if a.v.abs ≥ 1 - 4 * a.err - 1e-3 then mk' a.v.asin 0 true
    else mk' a.v.asin (a.err / (1 - a.v * a.v).sqrt * 2 + 8 * u) bad
  | .acos =>
    if a.v.abs ≥ 1 - 4 * a.err - 1e-3 then mk' a.v.acos 0 true
    else mk' a.v.acos (a.err / (1 - a.v * a.v).sqrt * 2 + 8 * u) bad
  | .atan => mk' a.v.atan (a.err + 8 * u) bad
  | .exp =>
    if a.v > 80 || a.v < -80 then mk' a.v.exp 0 true
    else let r := a.v.exp; mk' r (r * a.err * 1.5 + 8 * u * r) bad
  | .log =>
    if a.v ≤ 8 * a.err + 1e-20 then mk' a.v.log 0 true
    else let r := a.v.log; mk' r (a.err / (a.v - a.err) * 1.5 + 8 * u * (if r.abs > 1 then r.abs else 1)) bad
  | .recip =>
    if a.v.abs ≤ 4 * a.err + 1e-30 then mk' (1 / a.v) 0 true
    else let r := 1 / a.v; mk' r (r.abs * a.err / (a.v.abs - a.err) + u * r.abs) bad
  | .constVar => a
  | _ => mk' 0 0 true

def interp : Interp UInt32 RefVal where
  const c := ofF32 (F32.ofBits c)
  un := un
  bin := bin
  orc _ _ _ _ := mk' 0 0 true
  bad := mk' 0 0 true

end RefVal
end Libfive
