/-
  The join of the worker-pool model (LibfiveModel/Pool.lean, C11) and the progress accounting
  (LibfiveModel/Progress.lean, C20): the `progress_handler->tick(...)` calls that
  `WorkerPool::run` (libfive/src/render/brep/worker_pool.inl) issues along a trace of pool events.
  Core Lean only (a driver may link this file).

  `N` is the dimension: a branch has `2^N` children, so the pool is started with `n = 2^N`.
  The model covers the case `settings.progress_handler != nullptr` (otherwise nothing is ticked).
-/
import LibfiveModel.Pool
import LibfiveModel.Progress

namespace Libfive.Pool
open Libfive.Progress

/-- The argument of the `tick` call (0 = no call) that the step `e`, taken in state `s`, issues.

    * `evalDone w k` while worker `w` evaluates cell `c` (hook `SITE_POOL_EVAL_DONE`):
      - `k = amb` (`t->type == Interval::AMBIGUOUS`, worker_pool.inl l.173–201): the children are
        pushed and the loop `continue`s before the progress block is reached — no tick;
      - otherwise the block l.209–228 runs: `if (can_subdivide)` (`t->region.level > 0`, l.149) the
        loop `ticks = 0; for (i < level) ticks = (ticks + 1) * (1 << N)` and `tick(ticks + 1)`
        (l.216–220) — that is `announced N level`, the very function `build` announces with
        (l.58–63) — `else tick(1)` (l.225);
    * `collect w last` (one evaluation of `t->collectChildren(...)` in the condition of the `while`
      at l.240): when it returns true (`last`: this `pending--` observed 0) the body runs
      `tick()` with the default argument 1 (l.247–248, progress.hpp `tick(uint64_t i=1)`); when it
      returns false the loop ends without a tick;
    * no other step touches the progress handler (`exitRoot` is the `t == nullptr` exit of the
      `while`, l.258). -/
def tickOf (N : Nat) (s : S) : Ev → Nat
  | .evalDone w k =>
    match s.act w with
    | .eval c =>
      match k with
      | .amb => 0
      | _ => if 0 < s.level c then announced N (s.level c) else 1
    | _ => 0
  | .collect _ last => if last then 1 else 0
  | _ => 0

/-- the `tick(i)` calls (their arguments, in the order of the trace) issued along the accepted
    prefix of `tr` from `s` -/
def tickCalls (N : Nat) : S → List Ev → List Nat
  | _, [] => []
  | s, e :: es =>
    match step s e with
    | some s' => if tickOf N s e = 0 then tickCalls N s' es else tickOf N s e :: tickCalls N s' es
    | none => []

/-- the value of `current_phase->counter` (`counter += i`, progress.cpp l.124) after the accepted
    prefix of `tr` from `s`: the ticks issued so far -/
def ticksIssued (N : Nat) : S → List Ev → Nat
  | _, [] => 0
  | s, e :: es =>
    match step s e with
    | some s' => tickOf N s e + ticksIssued N s' es
    | none => 0

end Libfive.Pool
