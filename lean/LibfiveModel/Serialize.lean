/-
  C08 model: the archive format of libfive, byte for byte.

  Follows libfive/src/tree/serializer.cpp, deserializer.cpp, archive.cpp and the parts of tree.cpp
  the loader goes through (`Tree::walk`, `Tree::nullary/unary/binary`) statement by statement.
  Core Lean only.  Constants are bit patterns (`UInt32`); the only place float semantics would
  enter is the constant folding done by `Tree::unary/binary` at load time, which is a *parameter*
  (`Folder`) here: all theorems hold for every folder.

  Trees are DAGs in a heap: a node is identified by a `NodeId` (the C++ pointer `Tree::Id`), the
  heap maps ids to `Node` records.  The format knows no remap/apply: `Tree::walk` flattens first, so
  the model serialises *flattened* DAGs; `serializeFlat` takes the flattening as a parameter.
-/
import LibfiveModel.Op

namespace Libfive.Serial

abbrev Byte := UInt8
abbrev NodeId := Nat

/-- One `TreeData` record without remap/apply: opcode, constant bits, operand ids. -/
structure Node where
  op : Op
  value : UInt32 := 0
  lhs : NodeId := 0
  rhs : NodeId := 0
deriving DecidableEq, Repr, Inhabited

/-! ## Constants of the format -/

def END_OF_ITEM : Byte := 0xFF      -- Serializer::END_OF_ITEM
def QUOTE : Byte := 0x22            -- '"'
def BACKSLASH : Byte := 0x5C        -- '\\'
def TAG_FULL : Byte := 0x54         -- 'T'
def TAG_REF : Byte := 0x74          -- 't'
def LAST_OP : Nat := 33

/-! ## ostream side: Serializer -/

/-- `Serializer::serializeString` without the enclosing quotes -/
def writeStringBody : List Byte → List Byte
  | [] => []
  | c :: s => (if c = QUOTE ∨ c = BACKSLASH then [BACKSLASH, c] else [c]) ++ writeStringBody s

/-- `Serializer::serializeString` -/
def writeString (s : List Byte) : List Byte := QUOTE :: (writeStringBody s ++ [QUOTE])

/-- `serializeBytes<uint32_t>` / `serializeBytes<float>` on a little-endian machine -/
def u32le (v : UInt32) : List Byte :=
  [UInt8.ofNat (v.toNat % 256), UInt8.ofNat (v.toNat / 256 % 256),
   UInt8.ofNat (v.toNat / 65536 % 256), UInt8.ofNat (v.toNat / 16777216 % 256)]

/-- `ids.find(n)`: stream position of a stored node (ids[p] = node stored at position p) -/
def posOf : List NodeId → NodeId → Option Nat
  | [], _ => none
  | a :: r, n => if a = n then some 0 else (posOf r n).map (· + 1)

inductive SErr
  | outOfRange        -- `ids.at(child)` throws: operand not stored before its parent
  | oracle            -- ORACLE clauses are outside the model
  | fuel
deriving DecidableEq, Repr

/-- body of the loop of `Serializer::serializeTree` for one node of the walk:
    returns the bytes written and the new id table -/
def serNode (heap : NodeId → Node) (ids : List NodeId) (n : NodeId) :
    Except SErr (List Byte × List NodeId) :=
  if n ∈ ids then .ok ([], ids)                       -- already stored: skip
  else
    let nd := heap n
    if nd.op = Op.oracle then .error .oracle
    else
      let ids' := ids ++ [n]                          -- ids.insert({n, ids.size()})
      let b0 : List Byte := [UInt8.ofNat nd.op.code]  -- out.put(n->op())
      let b1 : List Byte := if nd.op = Op.constant then u32le nd.value else []
      match nd.op.args with
      | some 2 =>
        match posOf ids' nd.rhs, posOf ids' nd.lhs with
        | some r, some l => .ok (b0 ++ b1 ++ u32le (UInt32.ofNat r) ++ u32le (UInt32.ofNat l), ids')
        | _, _ => .error .outOfRange
      | some 1 =>
        match posOf ids' nd.lhs with
        | some l => .ok (b0 ++ b1 ++ u32le (UInt32.ofNat l), ids')
        | none => .error .outOfRange
      | _ => .ok (b0 ++ b1, ids')

/-- the `for (auto& n : t.walk())` loop, for a given walk order -/
def serNodes (heap : NodeId → Node) : List NodeId → List NodeId → Except SErr (List Byte × List NodeId)
  | ids, [] => .ok ([], ids)
  | ids, n :: rest =>
    match serNode heap ids n with
    | .error e => .error e
    | .ok (b, ids') =>
      match serNodes heap ids' rest with
      | .error e => .error e
      | .ok (bs, ids'') => .ok (b ++ bs, ids'')

/-! ### `Tree::walk` (remap-free part): reference counts, then a Kahn-style descent, reversed -/

def cget (c : List (NodeId × Nat)) (n : NodeId) : Nat :=
  match c.find? (·.1 == n) with | some (_, k) => k | none => 0

def cset (c : List (NodeId × Nat)) (n : NodeId) (k : Nat) : List (NodeId × Nat) :=
  (n, k) :: c.filter (·.1 != n)

/-- children in the order the C++ visits them (lhs, then rhs) -/
def children (nd : Node) : List NodeId :=
  match nd.op.args with
  | some 1 => [nd.lhs]
  | some 2 => [nd.lhs, nd.rhs]
  | _ => []

/-- first loop of `walk`: `if (count[child]++ == 0) todo.push(child)` -/
def walkCount (heap : NodeId → Node) : Nat → List NodeId → List (NodeId × Nat) → List (NodeId × Nat)
  | 0, _, c => c
  | _, [], c => c
  | fuel + 1, next :: todo, c =>
    let (todo', c') := (children (heap next)).foldl (fun (tc : List NodeId × List (NodeId × Nat)) ch =>
      let k := cget tc.2 ch
      (if k = 0 then ch :: tc.1 else tc.1, cset tc.2 ch (k + 1))) (todo, c)
    walkCount heap fuel todo' c'

/-- second loop of `walk`: `if (--count.at(child) == 0) todo.push(child)`; result is root-first -/
def walkFlat (heap : NodeId → Node) : Nat → List NodeId → List (NodeId × Nat) → List NodeId → List NodeId
  | 0, _, _, flat => flat
  | _, [], _, flat => flat
  | fuel + 1, next :: todo, c, flat =>
    let (todo', c') := (children (heap next)).foldl (fun (tc : List NodeId × List (NodeId × Nat)) ch =>
      let k := cget tc.2 ch - 1
      (if k = 0 then ch :: tc.1 else tc.1, cset tc.2 ch k)) (todo, c)
    walkFlat heap fuel todo' c' (next :: flat)

/-- `Tree::walk()` of a remap-free tree: leaves-to-root order (`fuel` ≥ number of edges + 1).
    `walkFlat` conses, so its result is already the reversed (leaves first) vector. -/
def walk (heap : NodeId → Node) (fuel : Nat) (root : NodeId) : List NodeId :=
  let c := walkCount heap fuel [root] []
  walkFlat heap fuel [root] c []

/-- `Serializer::serializeTree` -/
def serTree (heap : NodeId → Node) (fuel : Nat) (ids : List NodeId) (root : NodeId) :
    Except SErr (List Byte × List NodeId) :=
  serNodes heap ids (walk heap fuel root)

/-- `Archive::Shape`; `vars` in the iteration order of the `std::map` (pointer order, supplied by
    the caller) -/
structure Shape where
  tree : NodeId
  name : List Byte
  doc : List Byte
  vars : List (NodeId × List Byte)
deriving DecidableEq, Repr, Inhabited

/-- the `for (auto& v : s.vars)` loop: unknown variables are reported on cerr and skipped -/
def serVars (ids : List NodeId) : List (NodeId × List Byte) → List Byte
  | [] => []
  | (v, name) :: rest =>
    (match posOf ids v with
     | some p => writeString name ++ u32le (UInt32.ofNat p)
     | none => []) ++ serVars ids rest

/-- `Serializer::serializeShape` -/
def serShape (heap : NodeId → Node) (fuel : Nat) (ids : List NodeId) (s : Shape) :
    Except SErr (List Byte × List NodeId) :=
  match posOf ids s.tree with
  | some p =>
    .ok ([TAG_REF] ++ writeString s.name ++ writeString s.doc ++ u32le (UInt32.ofNat p)
          ++ serVars ids s.vars ++ [END_OF_ITEM], ids)
  | none =>
    match serTree heap fuel ids s.tree with
    | .error e => .error e
    | .ok (bs, ids') =>
      .ok ([TAG_FULL] ++ writeString s.name ++ writeString s.doc ++ bs ++ [END_OF_ITEM]
            ++ serVars ids' s.vars ++ [END_OF_ITEM], ids')

/-- `Serializer::run` from a given id table -/
def serShapes (heap : NodeId → Node) (fuel : Nat) : List NodeId → List Shape → Except SErr (List Byte × List NodeId)
  | ids, [] => .ok ([], ids)
  | ids, s :: rest =>
    match serShape heap fuel ids s with
    | .error e => .error e
    | .ok (b, ids') =>
      match serShapes heap fuel ids' rest with
      | .error e => .error e
      | .ok (bs, ids'') => .ok (b ++ bs, ids'')

/-- `Archive::serialize` -/
def serialize (heap : NodeId → Node) (fuel : Nat) (shapes : List Shape) : Except SErr (List Byte) :=
  match serShapes heap fuel [] shapes with
  | .error e => .error e
  | .ok (b, _) => .ok b

/-- `Archive::serialize` for shapes whose trees may still contain remap/apply (after fix 7cbf398):
    `serializeShape` replaces the tree by `s.tree.flatten()` — kept alive next to the address-keyed id
    table — before anything else looks at it.  `flat` is that function on node ids (C07's subject);
    remap-free trees are their own flattening. -/
def serializeFlat (heap : NodeId → Node) (flat : NodeId → NodeId) (fuel : Nat) (shapes : List Shape) :
    Except SErr (List Byte) :=
  serialize heap fuel (shapes.map fun s => { s with tree := flat s.tree })

/-! ## istream side -/

/-- `std::istream` over a byte buffer.  `eofbit` and `failbit` are only ever set together here
    (a read past the end sets both; a read on a stream that is not `good()` sets failbit), so one
    flag models both. -/
structure IStream where
  data : List Byte
  eof : Bool := false
deriving DecidableEq, Repr, Inhabited

/-- `in.get()`: `none` is `traits::eof()` -/
def IStream.get (s : IStream) : Option Byte × IStream :=
  if s.eof then (none, s)
  else match s.data with
    | [] => (none, { s with eof := true })
    | b :: r => (some b, { s with data := r })

/-- `deserializeBytes<uint32_t>` / `<float>`: `none` means the object was (partly) left
    uninitialised — its value is not determined by the stream -/
def IStream.readU32 (s : IStream) : Option UInt32 × IStream :=
  if s.eof then (none, s)
  else match s.data with
    | b0 :: b1 :: b2 :: b3 :: r =>
      (some (UInt32.ofNat (b0.toNat + 256 * b1.toNat + 65536 * b2.toNat + 16777216 * b3.toNat)),
       { s with data := r })
    | _ => (none, { data := [], eof := true })

/-- body of the `while (!in.eof())` loop of `deserializeString`, entered with eof clear.
    At the end of the data `in.get()` returns EOF, which the code stores as the char 0xFF. -/
def readStrBody : List Byte → List Byte × IStream
  | [] => ([0xFF], { data := [], eof := true })
  | c :: rest =>
    if c = QUOTE then ([], { data := rest, eof := false })
    else if c = BACKSLASH then
      match rest with
      | [] => ([0xFF], { data := [], eof := true })
      | d :: rest' => let r := readStrBody rest'; (d :: r.1, r.2)
    else let r := readStrBody rest; (c :: r.1, r.2)

/-- messages of the loader on std::cerr, by class (REQUIRE conditions and the string reader) -/
inductive Err
  | eof        -- CHECK_POS: `expected !in.eof()`
  | tag        -- `expected tag == 'T' || tag == 't'`
  | opLow      -- `expected op > Opcode::INVALID`
  | opHigh     -- `expected op < Opcode::LAST_OP`
  | strEof     -- `deserializeString: EOF at beginning of string`
  | strOpen    -- `deserializeString: expected opening "`
  | varIdx     -- `expected t != trees.end()`
  | varDup     -- `expected out.vars.find(...) == out.vars.end()`
  | oracle     -- no installed oracle deserializer / failed to deserialize Oracle
deriving DecidableEq, Repr, Inhabited

/-- abnormal ends -/
inductive Stop
  | outOfRange      -- `std::map::at` throws std::out_of_range
  | indeterminate   -- the C++ goes on with an uninitialised object or dereferences `end()`
  | fuel
deriving DecidableEq, Repr, Inhabited

/-- `Deserializer::deserializeString`: (string, stream, messages) -/
def readString (s : IStream) : List Byte × IStream × List Err :=
  if s.eof then ([], s, [Err.strEof])
  else
    let (c, s1) := s.get
    if c ≠ some QUOTE then ([], s1, [Err.strOpen])
    else let r := readStrBody s1.data; (r.1, r.2, [])

/-! ### `Tree::nullary / unary / binary` on the loader's heap -/

/-- constant folding (`ArrayEvaluator` on a one-clause tree): uninterpreted here -/
structure Folder where
  f1 : Op → UInt32 → UInt32
  f2 : Op → UInt32 → UInt32 → UInt32

/-- singletons `Tree::X() Y() Z() invalid()` live at fixed ids of the loader's heap -/
def idX : NodeId := 0
def idY : NodeId := 1
def idZ : NodeId := 2
def idInvalid : NodeId := 3
def heap0 : List Node := [{ op := .varX }, { op := .varY }, { op := .varZ }, { op := .invalid }]

def hget (h : List Node) (i : NodeId) : Node := (h[i]?).getD { op := .invalid }

def isConst (n : Node) : Bool := n.op == Op.constant
def isUnary (n : Node) : Bool := n.op.args == some 1
/-- `v->value == 0.0`, `== 1`, `== -1` on bit patterns -/
def isZero (v : UInt32) : Bool := v == 0x00000000 || v == 0x80000000
def isOne (v : UInt32) : Bool := v == 0x3f800000
def isMinusOne (v : UInt32) : Bool := v == 0xbf800000

def alloc (h : List Node) (n : Node) : List Node × NodeId := (h ++ [n], h.length)

/-- what `Tree::unary(op, lhs)` does, as a decision on the operand's record -/
inductive Act1 | alloc | fold | retArg | retArgLhs
deriving DecidableEq, Repr

def act1 (op : Op) (l : Node) : Act1 :=
  if isConst l then .fold
  else if op = Op.abs then
    (if isUnary l && (l.op == Op.abs || l.op == Op.square) then .retArg else .alloc)
  else if op = Op.neg then
    (if isUnary l && l.op == Op.neg then .retArgLhs else .alloc)
  else .alloc

/-- `Tree::unary` for an opcode with `args(op) = 1` -/
def mkUnary (F : Folder) (h : List Node) (op : Op) (a : NodeId) : List Node × NodeId :=
  let l := hget h a
  match act1 op l with
  | .fold => alloc h { op := .constant, value := F.f1 op l.value }
  | .retArg => (h, a)
  | .retArgLhs => (h, l.lhs)
  | .alloc => alloc h { op := op, lhs := a }

/-- what `Tree::binary(op, lhs, rhs)` does, as a decision on the operands' records and on
    `lhs.id() == rhs.id()` -/
inductive Act2
  | alloc | fold | retL | retR | negL | negR | squareL
  | subRLl      -- rhs - lhs->lhs
  | subLRl      -- lhs - rhs->lhs
  | addLRl      -- lhs + rhs->lhs
deriving DecidableEq, Repr

def act2 (op : Op) (l r : Node) (same : Bool) : Act2 :=
  if isConst l && isConst r then .fold
  else if op = Op.div then
    (if isConst r && isOne r.value then .retL else .alloc)
  else if op = Op.add then
    (if isConst l then (if isZero l.value then .retR else .alloc)
     else if isConst r then (if isZero r.value then .retL else .alloc)
     else if isUnary l then (if l.op == Op.neg then .subRLl else .alloc)
     else if isUnary r then (if r.op == Op.neg then .subLRl else .alloc)
     else .alloc)
  else if op = Op.sub then
    (if isConst l then (if isZero l.value then .negR else .alloc)
     else if isConst r then (if isZero r.value then .retL else .alloc)
     else if isUnary r then (if r.op == Op.neg then .addLRl else .alloc)
     else .alloc)
  else if op = Op.mul then
    (if isConst l then
       (if isZero l.value then .retL else if isOne l.value then .retR
        else if isMinusOne l.value then .negR else .alloc)
     else if isConst r then
       (if isZero r.value then .retR else if isOne r.value then .retL
        else if isMinusOne r.value then .negL else .alloc)
     else if same then .squareL else .alloc)
  else if op = Op.nthRoot ∨ op = Op.pow then
    (if isConst r && isOne r.value then .retL else .alloc)
  else if op = Op.min ∨ op = Op.max then
    (if same then .retL else .alloc)
  else .alloc

/-- `Tree::binary` for an opcode with `args(op) = 2`; `fuel` bounds the mutual rewriting of
    `a + (-b)` / `a - (-b)` (each step strips one negation) -/
def mkBinary (F : Folder) : Nat → List Node → Op → NodeId → NodeId → List Node × NodeId
  | 0, h, _, _, _ => (h, idInvalid)
  | fuel + 1, h, op, a, b =>
    let l := hget h a
    let r := hget h b
    match act2 op l r (a == b) with
    | .alloc => alloc h { op := op, lhs := a, rhs := b }
    | .fold => alloc h { op := .constant, value := F.f2 op l.value r.value }
    | .retL => (h, a)
    | .retR => (h, b)
    | .negL => mkUnary F h Op.neg a
    | .negR => mkUnary F h Op.neg b
    | .squareL => mkUnary F h Op.square a
    | .subRLl => mkBinary F fuel h Op.sub b l.lhs
    | .subLRl => mkBinary F fuel h Op.sub a r.lhs
    | .addLRl => mkBinary F fuel h Op.add a r.lhs

/-! ### Deserializer -/

structure LShape where
  tree : NodeId
  name : List Byte
  doc : List Byte
  /-- `std::map<Tree::Id, std::string>` in insertion order (`operator[]` overwrites) -/
  vars : List (NodeId × List Byte)
deriving DecidableEq, Repr, Inhabited

structure DState where
  inp : IStream
  trees : List NodeId := []         -- Deserializer::trees: keys are always 0 .. size-1
  heap : List Node := heap0         -- every TreeData the loader has allocated
  log : List Err := []              -- std::cerr, oldest first
deriving DecidableEq, Repr, Inhabited

abbrev Res (α : Type) := Except (Stop × List Err) (α × DState)

def DState.say (st : DState) (e : Err) : DState := { st with log := st.log ++ [e] }
def DState.says (st : DState) (es : List Err) : DState := { st with log := st.log ++ es }
/-- `CHECK_POS()` -/
def DState.checkPos (st : DState) : DState := if st.inp.eof then st.say .eof else st

def stop {α : Type} (st : DState) (s : Stop) : Res α := .error (s, st.log)

/-- `trees.at(i)` -/
def treeAt (st : DState) (i : Nat) : Option NodeId := st.trees[i]?

def bumpTree (st : DState) (hn : List Node × NodeId) : DState :=
  { st with heap := hn.1, trees := st.trees ++ [hn.2] }

/-- the clause loop body once the opcode byte has been converted: CONSTANT, ORACLE, then by
    `Opcode::args` -/
def clauseOp (F : Folder) (st : DState) (op : Op) : Res (Option Bool) :=
  if op = Op.constant then
    let r := st.inp.readU32
    let st := { st with inp := r.2 }
    match r.1 with
    | none => stop st .indeterminate
    | some v => .ok (some false, bumpTree st (alloc st.heap { op := .constant, value := v }))
  else if op = Op.oracle then
    let r := readString st.inp
    let st := ({ st with inp := r.2.1 }).says r.2.2
    let st := st.checkPos
    .ok (some true, st.say .oracle)
  else
    match op.args with
    | some 2 =>
      let r := st.inp.readU32
      let l := r.2.readU32
      let st := { st with inp := l.2 }
      (match r.1, l.1 with
       | some r, some l =>
         (match treeAt st l.toNat, treeAt st r.toNat with
          | some a, some b => .ok (some false, bumpTree st (mkBinary F 64 st.heap op a b))
          | _, _ => stop st .outOfRange)
       | _, _ => stop st .indeterminate)
    | some 1 =>
      let l := st.inp.readU32
      let st := { st with inp := l.2 }
      (match l.1 with
       | some l =>
         (match treeAt st l.toNat with
          | some a => .ok (some false, bumpTree st (mkUnary F st.heap op a))
          | none => stop st .outOfRange)
       | none => stop st .indeterminate)
    | some 0 =>
      -- Tree::nullary
      if op = Op.varX then .ok (some false, bumpTree st (st.heap, idX))
      else if op = Op.varY then .ok (some false, bumpTree st (st.heap, idY))
      else if op = Op.varZ then .ok (some false, bumpTree st (st.heap, idZ))
      else .ok (some false, bumpTree st (alloc st.heap { op := op }))
    | _ => .ok (some false, bumpTree st (st.heap, idInvalid))    -- args = -1: nullary -> invalid()

/-- one iteration of the clause loop of `deserializeShape`.
    Result: `none` = loop left by `break`; `some false` = go on; `some true` = the early
    `return out` after a failed oracle. -/
def clauseStep (F : Folder) (st : DState) : Res (Option Bool) :=
  let st := st.checkPos
  let g := st.inp.get                              -- deserializeBytes<uint8_t>
  let st := { st with inp := g.2 }
  match g.1 with
  | none => .ok (none, st)                         -- read failed: eof is set, either test breaks
  | some b =>
    if b = END_OF_ITEM then .ok (none, st)
    else
      let code := b.toNat
      let st := if code = 0 then st.say .opLow else st
      let st := if code ≥ LAST_OP then st.say .opHigh else st
      let st := st.checkPos
      match (if code < LAST_OP then Op.ofCode? code else none) with
      | some op => clauseOp F st op
      | none => .ok (some false, bumpTree st (st.heap, idInvalid))

/-- the `while (true)` clause loop; result `true` = early return -/
def clauseLoop (F : Folder) : Nat → DState → Res Bool
  | 0, st => stop st .fuel
  | fuel + 1, st =>
    match clauseStep F st with
    | .error e => .error e
    | .ok (none, st) => .ok (false, st)
    | .ok (some true, st) => .ok (true, st)
    | .ok (some false, st) => clauseLoop F fuel st

def varsInsert (vars : List (NodeId × List Byte)) (id : NodeId) (name : List Byte) :
    List (NodeId × List Byte) :=
  if vars.any (·.1 == id) then vars.map (fun p => if p.1 == id then (id, name) else p)
  else vars ++ [(id, name)]

/-- `in.peek()`: `none` is `traits::eof()` (the end of the data sets eofbit) -/
def IStream.peek (s : IStream) : Option Byte × IStream :=
  if s.eof then (none, s)
  else match s.data with
    | [] => (none, { s with eof := true })
    | b :: _ => (some b, s)

/-- the `while (!in.eof())` variable loop (after fix 38f63f2: the END_OF_ITEM test only *peeks*,
    so the opening quote of the name is still there for `deserializeString`) -/
def varLoop : Nat → DState → List (NodeId × List Byte) → Res (List (NodeId × List Byte))
  | 0, st, _ => stop st .fuel
  | fuel + 1, st, vars =>
    if st.inp.eof then .ok (vars, st)
    else
      let pk := st.inp.peek
      let st := { st with inp := pk.2 }
      match pk.1 with
      | none => .ok (vars, st)                 -- `else if (in.eof()) break`
      | some b =>
        if b = END_OF_ITEM then .ok (vars, { st with inp := st.inp.get.2 })   -- `in.get(); break`
        else
          let r := readString st.inp
          let st := ({ st with inp := r.2.1 }).says r.2.2
          let w := st.inp.readU32
          let st := { st with inp := w.2 }
          match w.1 with
          | none => stop st .indeterminate
          | some idx =>
            match treeAt st idx.toNat with
            | none => stop (st.say .varIdx) .indeterminate   -- `t->second` on `trees.end()`
            | some id =>
              let st := if vars.any (·.1 == id) then st.say .varDup else st
              varLoop fuel st (varsInsert vars id r.1)

/-- `Deserializer::deserializeShape` -/
def readShape (F : Folder) (tag : Byte) (st : DState) : Res LShape :=
  let st := st.checkPos
  let st := if tag = TAG_FULL ∨ tag = TAG_REF then st else st.say .tag
  let (name, inp, es) := readString st.inp
  let st := ({ st with inp := inp }).says es
  let st := st.checkPos
  let (doc, inp, es) := readString st.inp
  let st := ({ st with inp := inp }).says es
  let fuel := st.inp.data.length + 1
  if tag = TAG_REF then
    let (root, inp) := st.inp.readU32
    let st := { st with inp := inp }
    match root with
    | none => stop st .indeterminate
    | some root =>
      match treeAt st root.toNat with
      | none => stop st .outOfRange
      | some t =>
        match varLoop fuel st [] with
        | .error e => .error e
        | .ok (vars, st) => .ok ({ tree := t, name := name, doc := doc, vars := vars }, st)
  else
    match clauseLoop F fuel st with
    | .error e => .error e
    | .ok (true, st) => .ok ({ tree := idInvalid, name := name, doc := doc, vars := [] }, st)
    | .ok (false, st) =>
      match st.trees.getLast? with        -- trees.at(trees.size() - 1)
      | none => stop st .outOfRange
      | some t =>
        match varLoop fuel st [] with
        | .error e => .error e
        | .ok (vars, st) => .ok ({ tree := t, name := name, doc := doc, vars := vars }, st)

/-- `Deserializer::run` -/
def readShapes (F : Folder) : Nat → DState → Res (List LShape)
  | 0, st => stop st .fuel
  | fuel + 1, st =>
    let (tag, inp) := st.inp.get           -- in.get(tag)
    let st := { st with inp := inp }
    match tag with
    | none => .ok ([], st)
    | some tag =>
      match readShape F tag st with
      | .error e => .error e
      | .ok (s, st) =>
        match readShapes F fuel st with
        | .error e => .error e
        | .ok (ss, st) => .ok (s :: ss, st)

/-- `Archive::deserialize` on a fresh, good stream -/
def deserialize (F : Folder) (bytes : List Byte) : Res (List LShape) :=
  readShapes F (bytes.length + 1) { inp := { data := bytes } }

/-! ## The reader before fix 38f63f2 (historical; only `archive_roundtrip_failed_before_fix` uses it) -/

/-- the variable loop as it was before 38f63f2: the END_OF_ITEM test *consumed* a byte -/
def varLoopOld : Nat → DState → List (NodeId × List Byte) → Res (List (NodeId × List Byte))
  | 0, st, _ => stop st .fuel
  | fuel + 1, st, vars =>
    if st.inp.eof then .ok (vars, st)
    else
      let (b, inp) := st.inp.get
      let st := { st with inp := inp }
      match b with
      | none => stop st .indeterminate       -- `op_` is uninitialised and decides what happens next
      | some b =>
        if b = END_OF_ITEM then .ok (vars, st)
        else
          let (name, inp, es) := readString st.inp
          let st := ({ st with inp := inp }).says es
          let (idx, inp) := st.inp.readU32
          let st := { st with inp := inp }
          match idx with
          | none => stop st .indeterminate
          | some idx =>
            match treeAt st idx.toNat with
            | none => stop (st.say .varIdx) .indeterminate   -- `t->second` on `trees.end()`
            | some id =>
              let st := if vars.any (·.1 == id) then st.say .varDup else st
              varLoopOld fuel st (varsInsert vars id name)

/-- `Deserializer::deserializeShape` before 38f63f2 -/
def readShapeOld (F : Folder) (tag : Byte) (st : DState) : Res LShape :=
  let st := st.checkPos
  let st := if tag = TAG_FULL ∨ tag = TAG_REF then st else st.say .tag
  let (name, inp, es) := readString st.inp
  let st := ({ st with inp := inp }).says es
  let st := st.checkPos
  let (doc, inp, es) := readString st.inp
  let st := ({ st with inp := inp }).says es
  let fuel := st.inp.data.length + 1
  if tag = TAG_REF then
    let (root, inp) := st.inp.readU32
    let st := { st with inp := inp }
    match root with
    | none => stop st .indeterminate
    | some root =>
      match treeAt st root.toNat with
      | none => stop st .outOfRange
      | some t =>
        match varLoopOld fuel st [] with
        | .error e => .error e
        | .ok (vars, st) => .ok ({ tree := t, name := name, doc := doc, vars := vars }, st)
  else
    match clauseLoop F fuel st with
    | .error e => .error e
    | .ok (true, st) => .ok ({ tree := idInvalid, name := name, doc := doc, vars := [] }, st)
    | .ok (false, st) =>
      match st.trees.getLast? with        -- trees.at(trees.size() - 1)
      | none => stop st .outOfRange
      | some t =>
        match varLoopOld fuel st [] with
        | .error e => .error e
        | .ok (vars, st) => .ok ({ tree := t, name := name, doc := doc, vars := vars }, st)

/-- `Deserializer::run` before 38f63f2 -/
def readShapesOld (F : Folder) : Nat → DState → Res (List LShape)
  | 0, st => stop st .fuel
  | fuel + 1, st =>
    let (tag, inp) := st.inp.get           -- in.get(tag)
    let st := { st with inp := inp }
    match tag with
    | none => .ok ([], st)
    | some tag =>
      match readShapeOld F tag st with
      | .error e => .error e
      | .ok (s, st) =>
        match readShapesOld F fuel st with
        | .error e => .error e
        | .ok (ss, st) => .ok (s :: ss, st)

/-- `Archive::deserialize` before 38f63f2 -/
def deserializeOld (F : Folder) (bytes : List Byte) : Res (List LShape) :=
  readShapesOld F (bytes.length + 1) { inp := { data := bytes } }

/-! ## Hypotheses of the round-trip theorems, as executable checks -/

/-- no load-time rewrite of `Tree::unary/binary` fires when node `n` is rebuilt from its operands
    (and `n` is not its own operand: trees are finite terms) -/
def nodePlain (heap : NodeId → Node) (n : NodeId) : Bool :=
  let nd := heap n
  match nd.op.args with
  | some 1 => act1 nd.op (heap nd.lhs) == Act1.alloc && nd.lhs != n
  | some 2 => act2 nd.op (heap nd.lhs) (heap nd.rhs) (nd.lhs == nd.rhs) == Act2.alloc && nd.lhs != n && nd.rhs != n
  | some 0 => nd.op != Op.oracle
  | _ => false

/-- `Tree::X() Y() Z()` are singletons: no two stored nodes carry the same axis opcode -/
def axesUnique (heap : NodeId → Node) (ids : List NodeId) : Bool :=
  ids.all fun a => ids.all fun b =>
    !((heap a).op == (heap b).op && ((heap a).op == Op.varX || (heap a).op == Op.varY || (heap a).op == Op.varZ)) || a == b

/-- the walk offers the root last and only once -/
def rootLastB (heap : NodeId → Node) (fuel : Nat) (root : NodeId) : Bool :=
  let w := walk heap fuel root
  w.getLast? == some root && !(w.dropLast.contains root)

def nodupB : List NodeId → Bool
  | [] => true
  | a :: r => !(r.contains a) && nodupB r

/-- hypotheses of `archive_roundtrip` on one shape: the keys of the `std::map` of variable names are
    distinct, every node of the walk is a fixed point of the loader's constructors, the root comes last -/
def shapeOKb (heap : NodeId → Node) (fuel : Nat) (s : Shape) : Bool :=
  nodupB (s.vars.map (·.1)) && (walk heap fuel s.tree).all (nodePlain heap) && rootLastB heap fuel s.tree

/-- all hypotheses of `archive_roundtrip` except `AxesUnique` (checked over the given ids) -/
def archiveCanon (heap : NodeId → Node) (fuel : Nat) (shapes : List Shape) : Bool :=
  match serShapes heap fuel [] shapes with
  | .ok (_, ids) => shapes.all (shapeOKb heap fuel) && axesUnique heap ids && ids.length < 4294967296
  | .error _ => false

end Libfive.Serial
