/-
  C09 — executable model of the height-map renderer
    libfive/src/render/discrete/heightmap.cpp   (render, recurse, pixels, fill)
    libfive/src/render/discrete/voxels.cpp      (Voxels::Voxels sizes)
    libfive/include/libfive/render/discrete/voxels.hpp  (View::split, unit, empty, voxels)

  Abstractions (everything else is as written):
  * the expression is a classifier `f i j k : Bool` ("the value at the centre of global voxel
    (i,j,k) is < 0", NaN counts as not inside, exactly the test `out[index] < 0` of `pixels`);
  * the interval evaluation of a view is an oracle `I : View → IState` read off the way `recurse`
    reads it: filled iff `isSafe() && isFilled()`, else empty iff `isEmpty()`, otherwise ambiguous;
  * voxel centre heights are `zr k : Int` (an order-preserving key of the float `pts.z()[k]`), depth
    pixels are such keys too, so every float comparison of the code (`<`, `>=`) is an `Int` comparison;
  * float view bounds (`lower/upper/middle`) are not modelled – they only feed the interval oracle;
  * normals are not modelled; the abort flag is never set (cancellation is C11).
  * `pixels` evaluates all columns in one batch and then unflattens; both passes use the same
    per-column guard (a column's depth is only written inside its own k-loop, after which the loop
    is left), so it is modelled as one pass that decides column by column.
  Core Lean only (the driver links against this file).
-/

namespace Libfive.Heightmap

/-! ## Voxels: number of voxels per axis -/

/-- `max 1 ⌈p⌉` for a non-negative rational `p = num/den` (`p = res·(upper−lower)` as computed in
    single precision by `Voxels::Voxels`; a negative or zero product is `num = 0`). -/
def voxSize (num den : Nat) : Nat := max 1 ((num + den - 1) / den)

/-! ## Views -/

/-- `Voxels::View` without the float bounds: `corner` and `size` (the `pts` pointers are
    `base + corner`, which the harness checks on the real objects). -/
structure View where
  cx : Nat
  cy : Nat
  cz : Nat
  sx : Nat
  sy : Nat
  sz : Nat
  deriving DecidableEq, Repr, Hashable

namespace View

/-- `View::voxels()` -/
def voxels (v : View) : Nat := v.sx * v.sy * v.sz

/-- `View::empty()` : `size.minCoeff() == 0` -/
def empty (v : View) : Bool := v.sx == 0 || v.sy == 0 || v.sz == 0

/-- `View::unit()` : `size == (1,1,1)` -/
def unit (v : View) : Bool := v.sx == 1 && v.sy == 1 && v.sz == 1

/-- global voxel (i,j,k) belongs to the view -/
def mem (v : View) (i j k : Nat) : Prop :=
  v.cx ≤ i ∧ i < v.cx + v.sx ∧ v.cy ≤ j ∧ j < v.cy + v.sy ∧ v.cz ≤ k ∧ k < v.cz + v.sz

/-- pixel (column) (i,j) belongs to the view's image block -/
def memXY (v : View) (i j : Nat) : Prop :=
  v.cx ≤ i ∧ i < v.cx + v.sx ∧ v.cy ≤ j ∧ j < v.cy + v.sy

instance (v : View) (i j k : Nat) : Decidable (v.mem i j k) := by unfold mem; infer_instance
instance (v : View) (i j : Nat) : Decidable (v.memXY i j) := by unfold memXY; infer_instance

end View

inductive Axis | x | y | z
  deriving DecidableEq, Repr

/-- Axis selection of `View::split<A>`:
    `(mask != 0).select(size, 0).maxCoeff(&axis)` — Eigen's visitor keeps the *first* index of the
    maximum (it only moves on a strictly greater coefficient). -/
def pickAxis (ax ay az : Bool) (v : View) : Axis :=
  let mx := if ax then v.sx else 0
  let my := if ay then v.sy else 0
  let mz := if az then v.sz else 0
  if my ≤ mx ∧ mz ≤ mx then Axis.x else if mz ≤ my then Axis.y else Axis.z

def View.size (v : View) : Axis → Nat
  | .x => v.sx
  | .y => v.sy
  | .z => v.sz

/-- `View::split<A>()`: `size_upper = size/2` (rounding down), `size_lower = size − size_upper`;
    the first view keeps the corner, the second starts at `corner + size_lower`. -/
def View.split (ax ay az : Bool) (v : View) : View × View :=
  match pickAxis ax ay az v with
  | .x =>
    let up := v.sx / 2
    let lo := v.sx - up
    ({ v with sx := lo }, { v with cx := v.cx + lo, sx := up })
  | .y =>
    let up := v.sy / 2
    let lo := v.sy - up
    ({ v with sy := lo }, { v with cy := v.cy + lo, sy := up })
  | .z =>
    let up := v.sz / 2
    let lo := v.sz - up
    ({ v with sz := lo }, { v with cz := v.cz + lo, sz := up })

/-- Iterating `split` down to unit views (fuel = an upper bound on the recursion depth;
    `sx+sy+sz` suffices, see `split_enumerates`). -/
def enumerate : Nat → View → List (Nat × Nat × Nat)
  | 0, _ => []
  | fuel + 1, v =>
    if v.empty then []
    else if v.unit then [(v.cx, v.cy, v.cz)]
    else
      let p := v.split true true true
      enumerate fuel p.1 ++ enumerate fuel p.2

/-! ## Depth image -/

/-- `Heightmap::depth` : `rows[j][i]` is `depth(row = y index j, col = x index i)`. -/
structure Img where
  rows : Array (Array Int)

namespace Img

def get (m : Img) (i j : Nat) : Int := ((m.rows[j]?).getD #[])[i]?.getD 0

def set (m : Img) (i j : Nat) (d : Int) : Img :=
  ⟨m.rows.modify j (fun r => r.setIfInBounds i d)⟩

/-- pixel (i,j) exists -/
def inb (m : Img) (i j : Nat) : Prop := ∃ r, m.rows[j]? = some r ∧ i < r.size

/-- `depth.fill(v)` on a fresh `rows × cols` image -/
def const (cols rows : Nat) (d : Int) : Img := ⟨Array.replicate rows (Array.replicate cols d)⟩

end Img

/-- `g 0`, then `g 1`, …, then `g (n-1)` (a C `for` loop). -/
def iter {α : Type} : Nat → (Nat → α → α) → α → α
  | 0, _, a => a
  | n + 1, g, a => g n (iter n g a)

/-- `for i < size.x  for j < size.y : depth(corner.y+j, corner.x+i) ← u i j depth(..)`.
    A conditional write `if c then depth = z` is `u = fun d => if c then z else d`. -/
def blockMap (u : Nat → Nat → Int → Int) (v : View) (m : Img) : Img :=
  iter v.sx (fun di m =>
    iter v.sy (fun dj m =>
      m.set (v.cx + di) (v.cy + dj) (u (v.cx + di) (v.cy + dj) (m.get (v.cx + di) (v.cy + dj)))) m) m

/-- `(block ⋄ …).all()` over the view's image block -/
def blockAll (p : Int → Bool) (v : View) (m : Img) : Bool :=
  (List.range v.sx).all fun di => (List.range v.sy).all fun dj => p (m.get (v.cx + di) (v.cy + dj))

/-! ## pixels / fill / recurse -/

/-- topmost inside voxel of column (i,j) among `k ∈ [cz, cz+n)`: the k-loop of `pixels`
    (`pts.z()[size.z − k − 1]`, first `out < 0` wins, then `break`). -/
def scanCol (f : Nat → Nat → Nat → Bool) (i j cz : Nat) : Nat → Option Nat
  | 0 => none
  | n + 1 => if f i j (cz + n) then some (cz + n) else scanCol f i j cz n

/-- height of the view's top voxel layer, `r.pts.z()[r.size.z() − 1]` -/
def top (zr : Nat → Int) (v : View) : Int := zr (v.cz + v.sz - 1)

/-- One column of `Heightmap::pixels`: guard of `VIEW_ITERATE_XYZ`, scan, guarded write. -/
def pixelUpd (f : Nat → Nat → Nat → Bool) (zr : Nat → Int) (v : View) (i j : Nat) (d : Int) : Int :=
  if d < top zr v then
    match scanCol f i j v.cz v.sz with
    | some k => if d < zr k then zr k else d
    | none => d
  else d

def pixels (f : Nat → Nat → Nat → Bool) (zr : Nat → Int) (v : View) (m : Img) : Img :=
  blockMap (pixelUpd f zr v) v m

/-- One pixel of `Heightmap::fill`. -/
def fillUpd (zr : Nat → Int) (v : View) (d : Int) : Int := if d < top zr v then top zr v else d

def fill (zr : Nat → Int) (v : View) (m : Img) : Img := blockMap (fun _ _ => fillUpd zr v) v m

/-- What `recurse` does with the interval result:
    `if (out.isSafe() && out.isFilled()) … else if (!out.isEmpty()) …`. -/
inductive IState | filled | empty | ambiguous
  deriving DecidableEq, Repr

/-- `Heightmap::recurse`.  `N = ArrayEvaluator::N`; `fuel` bounds the recursion depth. -/
def recurse (N : Nat) (f : Nat → Nat → Nat → Bool) (zr : Nat → Int) (I : View → IState) :
    Nat → View → Img → Img
  | 0, _, m => m
  | fuel + 1, v, m =>
    -- `if ((block >= r.pts.z()[r.size.z() - 1]).all()) return true;`
    if blockAll (fun d => decide (top zr v ≤ d)) v m then m
    -- `if (r.voxels() <= ArrayEvaluator::N) { pixels(e, tape, r); return true; }`
    else if v.voxels ≤ N then pixels f zr v m
    else match I v with
      | .filled => fill zr v m
      | .empty => m
      | .ambiguous =>
        let p := v.split true true true
        -- `recurse(.., rs.second, ..) && recurse(.., rs.first, ..)`
        recurse N f zr I fuel p.1 (recurse N f zr I fuel p.2 m)

/-! ## render: top-level XY splitting, one region per evaluator -/

/-- The `while (rs.size() < es.size() && rs.front().size.head<2>().minCoeff() > 1)` loop. -/
def regionsLoop : Nat → Nat → List View → List View
  | 0, _, rs => rs
  | fuel + 1, workers, rs =>
    match rs with
    | [] => []
    | r :: rest =>
      if (r :: rest).length < workers ∧ 1 < min r.sx r.sy then
        let p := r.split true true false
        regionsLoop fuel workers (rest ++ [p.1, p.2])
      else r :: rest

def regions (workers : Nat) (v : View) : List View := regionsLoop workers workers [v]

/-- the regions rendered one after the other (threads: see `C09.recurse_local`) -/
def renderFrom (N : Nat) (f : Nat → Nat → Nat → Bool) (zr : Nat → Int) (I : View → IState)
    (rs : List View) (m : Img) : Img :=
  rs.foldl (fun m r => recurse N f zr I (r.sx + r.sy + r.sz) r m) m

def render (N : Nat) (f : Nat → Nat → Nat → Bool) (zr : Nat → Int) (I : View → IState)
    (workers : Nat) (root : View) (m : Img) : Img :=
  renderFrom N f zr I (regions workers root) m

end Libfive.Heightmap
