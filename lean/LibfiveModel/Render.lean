/-
  Model of `Mesh::render`'s control flow under cancellation (libfive/src/render/brep/mesh.cpp,
  worker_pool.inl `build`, dual.hpp `walk_`, simplex_tree.inl `assignIndices`).  Core Lean only.

  Time is a global clock that advances at every *cancellation point* (every place where the code
  reads `settings.cancel`): the loop-head checks of the three worker loops and the explicit checks
  between phases.  `obs t` says whether the read at clock `t` observed the flag raised; the flag
  is only ever raised during a render, so `obs` is monotone.
-/

namespace Libfive.Render

inductive Alg | dc | simplex | hybrid
deriving DecidableEq, Repr, Inhabited

/-- number of loop-head checks each phase needs to pass to run to completion -/
structure Sizes where
  build : Nat
  index : Nat
  walk : Nat
deriving DecidableEq, Repr, Inhabited

/-- A worker-loop phase with `n` cancellation points starting at clock `c`:
    `(ran to completion, clock afterwards)`.  The first check that observes the flag makes the
    workers leave their loops with work undone. -/
def runPhase (obs : Nat → Bool) : Nat → Nat → Bool × Nat
  | 0, c => (true, c)
  | n + 1, c => if obs c then (false, c + 1) else runPhase obs n (c + 1)

/-- `assignIndices`: `SimplexTree` has a cancellable worker loop; `HybridTree::assignIndices`
    ignores `settings` (“TODO: multithreading and cancellation”) and always completes; DC has no
    such phase. -/
def indexPhase (alg : Alg) (obs : Nat → Bool) (sz : Sizes) (c : Nat) : Bool × Nat :=
  match alg with
  | .simplex => runPhase obs sz.index c
  | _ => (true, c)

/-- result of a render: `none` = `nullptr`; `some complete` = a mesh, `complete` iff every phase
    that contributes to it ran to completion -/
abbrev Result := Option Bool

/-- `Mesh::render` as written (after the fix f00be3c):
    ```
    t = Pool::build(...)                 // workers; then `if (cancel) return Root()`
    if (cancel || t.get() == nullptr) return nullptr
    [t->assignIndices(settings)          // simplex, hybrid
     if (cancel) return nullptr]
    out = Dual::walk(...)                // workers; top edges; collect
    if (cancel) return nullptr
    t.reset(settings)
    return out
    ``` -/
def render (alg : Alg) (sz : Sizes) (obs : Nat → Bool) : Result :=
  let (b, c) := runPhase obs sz.build 0
  let buildSawCancel := obs c          -- end of WorkerPool::build
  let checkSawCancel := obs (c + 1)    -- mesh.cpp, after build
  if buildSawCancel || checkSawCancel then none
  else
    match alg with
    | .dc =>
      let (w, c) := runPhase obs sz.walk (c + 2)
      if obs c then none else some (b && w)
    | _ =>
      let (i, c) := indexPhase alg obs sz (c + 2)
      if obs c then none
      else
        let (w, c) := runPhase obs sz.walk (c + 1)
        if obs c then none
        else some (b && i && w)

/-- the flow BEFORE the fix (`// TODO: check for early return here again`): no read of the flag
    after `assignIndices` and after `Dual::walk` -/
def renderOld (alg : Alg) (sz : Sizes) (obs : Nat → Bool) : Result :=
  let (b, c) := runPhase obs sz.build 0
  let buildSawCancel := obs c
  let checkSawCancel := obs (c + 1)
  if buildSawCancel || checkSawCancel then none
  else
    let (i, c) := indexPhase alg obs sz (c + 2)
    let (w, _) := runPhase obs sz.walk c
    some (b && i && w)

/-- the flag is raised just before the read at clock `k` (never, for `none`) -/
def raisedAt : Option Nat → Nat → Bool
  | none, _ => false
  | some k, t => decide (k ≤ t)

end Libfive.Render
