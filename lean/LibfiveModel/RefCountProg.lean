/-
  C14 — per-thread PROGRAMS of handle operations over a shared immutable DAG, executed as
  interleaved atomic micro-steps.  Core Lean only.

  What is modelled (libfive/src/tree/tree.cpp, include/libfive/tree/data.hpp):
    * `Data::refcount` is a `std::atomic_uint32_t`; the copy constructor does one `refcount++`,
      `Tree::~Tree` does `--refcount` and, when it observed 1 → 0, owns the node exclusively: it steals
      the children with `std::exchange` onto ITS OWN `std::stack todo`, runs `delete`, and goes on
      popping `todo` (one `--refcount` per popped pointer).
    * The DAG itself is immutable (children of a node never change while it is alive); children are
      built before their parents, so a child's id is smaller than its parent's.

  Shared state : `rc` (the atomic counters), `freed` (tombstones; ids are never reused).
  Thread state : the rest of its program, its private work stack (`todo`), the node it is currently
                 deleting (`dying`: it observed 1 → 0 but has not run `delete` yet), and the multiset
                 `hs` of `Tree` handles it owns.
  Handles that stay alive for the whole run and that every thread may copy from (a `const Tree&`
  shared by the spawning thread, the function-local statics X/Y/Z) are the *pins* of the graph.

  Micro-steps of thread `t` (what it does next is a function of its private state only):
    del   n   (dying = some n)     push the children on its own stack, `delete n`
    dec   n   (stack = n :: rest)  `fetch_sub`; if it observed 1 the thread becomes the deleter
    copy  n   (next program op)    `fetch_add` (needs an own handle to n, or a pin)
    destroy n (next program op)    give up one own handle to n: push n on the (empty) work stack
  A schedule is a list of thread ids; scheduling a finished / non-existent thread is a no-op.
  `step` returns `none` on a fault: touching a freed node (use after free / double free), decrementing
  a zero count, copying or destroying through a handle the thread does not own.
-/
import LibfiveModel.RefCountConc

namespace Libfive.RCP

inductive Op where
  | copy (n : Nat)
  | destroy (n : Nat)
  deriving Repr, DecidableEq

/-- the immutable part: `kids p` are the `Tree` members of node `p` (with multiplicity), nodes are
    `0 .. size-1`, `pins` the handles that outlive the run (with multiplicity) -/
structure Graph where
  size : Nat
  kids : Nat → List Nat
  pins : List Nat

def Graph.pin (G : Graph) (n : Nat) : Nat := G.pins.count n

/-- children are older than their parents -/
def Graph.acyclic (G : Graph) : Prop := ∀ p, p < G.size → ∀ k ∈ G.kids p, k < p

instance (G : Graph) : Decidable G.acyclic := by unfold Graph.acyclic; exact inferInstance

structure Thread where
  prog  : List Op
  stack : List Nat
  dying : Option Nat
  hs    : List Nat
  deriving Repr, DecidableEq

structure State where
  rc    : Nat → Nat
  freed : Nat → Bool
  thr   : List Thread

def upd {α : Type} (f : Nat → α) (n : Nat) (v : α) : Nat → α := fun m => if m = n then v else f m

/-- one micro-step of thread `t` whose private state is `th` -/
def tstep (G : Graph) (s : State) (t : Nat) (th : Thread) : Option State :=
  match th.dying with
  | some n =>
    -- `todo.push(std::exchange(child.ptr, nullptr))…; delete n`
    if s.freed n = true then none
    else some ⟨s.rc, upd s.freed n true,
               s.thr.set t { th with dying := none, stack := (G.kids n).reverse ++ th.stack }⟩
  | none =>
    match th.stack with
    | n :: rest =>
      -- `--n->refcount` (observes `s.rc n`)
      if s.freed n = true ∨ s.rc n = 0 then none
      else some ⟨upd s.rc n (s.rc n - 1), s.freed,
                 s.thr.set t { th with stack := rest, dying := if s.rc n = 1 then some n else none }⟩
    | [] =>
      match th.prog with
      | [] => some s
      | .copy n :: ops =>
        -- `n->refcount++`
        if s.freed n = true ∨ ¬ (n ∈ th.hs ∨ 1 ≤ G.pin n) then none
        else some ⟨upd s.rc n (s.rc n + 1), s.freed,
                   s.thr.set t { th with prog := ops, hs := n :: th.hs }⟩
      | .destroy n :: ops =>
        if n ∈ th.hs then
          some ⟨s.rc, s.freed, s.thr.set t { th with prog := ops, hs := th.hs.erase n, stack := [n] }⟩
        else none

def step (G : Graph) (s : State) (t : Nat) : Option State :=
  match s.thr[t]? with
  | none => some s
  | some th => tstep G s t th

def run (G : Graph) : State → List Nat → Option State
  | s, [] => some s
  | s, t :: ts =>
    match step G s t with
    | some s' => run G s' ts
    | none => none

/-- the node whose shared cell (counter / memory) the next micro-step of thread `t` accesses -/
def touch (s : State) (t : Nat) : Option Nat :=
  match s.thr[t]? with
  | none => none
  | some th =>
    match th.dying with
    | some n => some n
    | none =>
      match th.stack with
      | n :: _ => some n
      | [] =>
        match th.prog with
        | .copy n :: _ => some n
        | _ => none

def Thread.idle (th : Thread) : Prop := th.prog = [] ∧ th.stack = [] ∧ th.dying = none

instance (th : Thread) : Decidable th.idle := by unfold Thread.idle; exact inferInstance

/-- every program consumed, every work stack empty, nobody in the middle of a delete -/
def State.done (s : State) : Prop := ∀ th ∈ s.thr, th.idle

instance (s : State) : Decidable s.done := by unfold State.done; exact inferInstance

/-! ### ownership accounting -/

def tsum (f : Thread → Nat) : List Thread → Nat
  | [] => 0
  | th :: l => f th + tsum f l

def nsum (g : Nat → Nat) : Nat → Nat
  | 0 => 0
  | k + 1 => nsum g k + g k

def dyc (o : Option Nat) (n : Nat) : Nat := if o = some n then 1 else 0

/-- handles to `n` owned by the threads -/
def H (l : List Thread) (n : Nat) : Nat := tsum (fun th => th.hs.count n) l
/-- pending decrements of `n` on the work stacks -/
def P (l : List Thread) (n : Nat) : Nat := tsum (fun th => th.stack.count n) l
/-- threads in the middle of deleting `n` -/
def D (l : List Thread) (n : Nat) : Nat := tsum (fun th => dyc th.dying n) l
/-- `Tree` members pointing to `n` inside nodes that have not been deleted -/
def E (G : Graph) (fr : Nat → Bool) (n : Nat) : Nat :=
  nsum (fun p => if fr p = true then 0 else (G.kids p).count n) G.size
/-- every owner of one count of `n` -/
def R (G : Graph) (s : State) (n : Nat) : Nat := G.pin n + H s.thr n + P s.thr n + E G s.freed n

/-- a thread's program only copies what it owns (or a pin) and only destroys what it owns -/
def progOk (G : Graph) : List Nat → List Op → Bool
  | _, [] => true
  | hs, .copy n :: ops => (decide (n ∈ hs) || decide (1 ≤ G.pin n)) && progOk G (n :: hs) ops
  | hs, .destroy n :: ops => decide (n ∈ hs) && progOk G (hs.erase n) ops

/-- the handles a thread owns when its program has finished -/
def finalHs : List Nat → List Op → List Nat
  | hs, [] => hs
  | hs, .copy n :: ops => finalHs (n :: hs) ops
  | hs, .destroy n :: ops => finalHs (hs.erase n) ops

def Thread.fin (th : Thread) : List Nat := finalHs th.hs th.prog

/-- The ownership invariant (inductive over micro-steps; it is the well-formedness hypothesis of the
    theorems, so they apply to states in the middle of a run as well). -/
structure Inv (G : Graph) (s : State) : Prop where
  /-- ids outside the graph are tombstones -/
  oob   : ∀ n, G.size ≤ n → s.freed n = true
  /-- the counter of a node that has not been deleted counts exactly its owners -/
  live  : ∀ n, s.freed n = false → s.rc n = R G s n
  /-- nothing refers to a deleted node and nobody is deleting it again -/
  dead  : ∀ n, s.freed n = true → R G s n = 0 ∧ D s.thr n = 0
  /-- at most one thread is deleting `n`, and then the counter is 0 -/
  dy    : ∀ n, D s.thr n ≠ 0 → D s.thr n = 1 ∧ s.rc n = 0
  /-- a node that is neither deleted nor being deleted has a positive count -/
  pos   : ∀ n, s.freed n = false → D s.thr n = 0 → 1 ≤ s.rc n
  progs : ∀ th ∈ s.thr, progOk G th.hs th.prog = true

/-- Well-formed START state, in checkable form: all threads idle-handed (empty stack, not deleting),
    programs respect ownership, no handle / pin / member of a live node points to a tombstone, and
    every live node's counter is `pins + handles + live parent members ≥ 1`. -/
structure Init (G : Graph) (s : State) : Prop where
  oob   : ∀ n, G.size ≤ n → s.freed n = true
  thr   : ∀ th ∈ s.thr, th.stack = [] ∧ th.dying = none ∧ progOk G th.hs th.prog = true ∧
            ∀ h ∈ th.hs, s.freed h = false
  pins  : ∀ n ∈ G.pins, s.freed n = false
  nodes : ∀ p, p < G.size → s.freed p = false →
            (∀ k ∈ G.kids p, s.freed k = false) ∧
            s.rc p = G.pin p + H s.thr p + E G s.freed p ∧ 1 ≤ s.rc p

/-- termination measure: every micro-step that is not a no-op decreases it -/
def mu (G : Graph) (s : State) : Nat :=
  tsum (fun th => 3 * th.prog.length + 2 * th.stack.length + (if th.dying = none then 0 else 1)) s.thr +
  nsum (fun p => if s.freed p = true then 0 else 2 * (G.kids p).length + 2) G.size

/-- the sequential schedule: thread 0 to completion, then thread 1, … (`mu` bounds the number of
    micro-steps any thread can make; extra slots are no-ops) -/
def seqSched (G : Graph) (s : State) : List Nat :=
  (List.range s.thr.length).flatMap (fun t => List.replicate (mu G s) t)

/-! ### the run as an event log of the atomic-step acceptor (LibfiveModel/RefCountConc.lean)

  This is what the instrumented library reports and what Driver/C14 replays through `RCC.crun`:
  copy ↦ `add t n old`, decrement ↦ `sub t n old` (old = the value the atomic observed), delete ↦
  `del t n`; starting a destroy and no-ops are thread-local and emit nothing. -/

/-- the event the next micro-step of thread `t` reports -/
def evOf (s : State) (t : Nat) : Option RCC.Ev :=
  match s.thr[t]? with
  | none => none
  | some th =>
    match th.dying with
    | some n => some (.del t n)
    | none =>
      match th.stack with
      | n :: _ => some (.sub t n (s.rc n))
      | [] =>
        match th.prog with
        | .copy n :: _ => some (.add t n (s.rc n))
        | _ => none

/-- the event log of running schedule `sched` from `s` (up to the first fault, if any) -/
def emit (G : Graph) : State → List Nat → List RCC.Ev
  | _, [] => []
  | s, t :: ts =>
    match step G s t with
    | some s' => (evOf s t).toList ++ emit G s' ts
    | none => []

/-- the thread (lowest id) that is in the middle of deleting `n`; ids count from `i` -/
def deleterFrom : List Thread → Nat → Nat → Option Nat
  | [], _, _ => none
  | th :: l, i, n => if th.dying = some n then some i else deleterFrom l (i + 1) n

/-- the acceptor's view of node `n`: deleted / some thread observed 1 → 0 and must delete / live -/
def cellOf (s : State) (n : Nat) : RCC.Cell :=
  if s.freed n = true then .freed
  else match deleterFrom s.thr 0 n with
    | some t => .dying t
    | none => .live (s.rc n)

/-- the acceptor state: exactly the `G.size` cells of the graph (ids outside are tombstones in the
    program model and simply do not exist in the acceptor) -/
def abs (G : Graph) (s : State) : RCC.CState := Array.ofFn (n := G.size) (fun i => cellOf s i.val)

end Libfive.RCP
