/-
  Model of libfive's standard library (libfive/stdlib/stdlib_impl.cpp) for C18.

  * `SExpr`  — symbolic expression trees (what `libfive::Tree` builds): float constants as
    bit patterns, x/y/z, free variables, unary/binary opcodes (LibfiveModel/Op.lean), `remap`.
  * `mkUnary / mkBinary / mkRemap` — literal transcription of the simplifications in
    `Tree::unary`, `Tree::binary`, `Tree::remap` (libfive/src/tree/tree.cpp).  Pointer
    identity (`lhs.id() == rhs.id()`) is modelled by structural equality; constant folding (done
    in the C++ by a single-precision `ArrayEvaluator`) is a parameter, `Folder`.
  * every stdlib function transcribed with the same operator calls in the same order.
  * `denote` — the meaning of an `SExpr`, parametric in an interpretation of the opcodes.

  Core Lean only (the C18 driver links this file).
-/
import LibfiveModel.Op

namespace Libfive.Stdlib
open Libfive

inductive SExpr
  | const (bits : Nat)            -- IEEE single bit pattern
  | x | y | z
  | var (i : Nat)                 -- Tree::var(), numbered
  | un (op : Op) (a : SExpr)
  | bin (op : Op) (a b : SExpr)
  | remap (t X Y Z : SExpr)       -- TreeRemap { X, Y, Z, t }
deriving DecidableEq, Repr, Inhabited

/-- constant folder: what `ArrayEvaluator(tmp).value({0,0,0})` returns for an all-constant
    node, on bit patterns; `lit` post-processes literals that the C++ computes in `double`
    with libm (`cos(M_PI / n)` …) — identity except in the driver (see Driver/C18.lean). -/
structure Folder where
  un : Op → Nat → Nat
  bin : Op → Nat → Nat → Nat
  lit : Nat → Nat := id

/-- `v->value == 0` on a float: +0 and -0 -/
def isZeroBits (c : Nat) : Bool := c == 0 || c == 0x80000000
/-- `v->value == 1` -/
def isOneBits (c : Nat) : Bool := c == 0x3f800000
/-- `v->value == -1` -/
def isNegOneBits (c : Nat) : Bool := c == 0xbf800000

namespace SExpr

def isConst : SExpr → Bool
  | const _ => true
  | _ => false

/-- `TreeData::compute_flags() & TREE_FLAG_HAS_XYZ` -/
def hasXYZ : SExpr → Bool
  | const _ => false
  | x | y | z => true
  | var _ => false
  | un _ a => a.hasXYZ
  | bin _ a b => a.hasXYZ || b.hasXYZ
  | remap t X Y Z => X.hasXYZ || Y.hasXYZ || Z.hasXYZ || t.hasXYZ

def size : SExpr → Nat
  | un _ a => a.size + 1
  | bin _ a b => a.size + b.size + 1
  | remap t X Y Z => t.size + X.size + Y.size + Z.size + 1
  | _ => 1

end SExpr
open SExpr

/-- `Tree::unary` (tree.cpp): constant folding, `abs∘abs`, `abs∘square`, `neg∘neg`. -/
def mkUnary (F : Folder) (op : Op) (a : SExpr) : SExpr :=
  match a with
  | const c => const (F.un op c)
  | un opa v =>
    if op = Op.abs then (if opa = Op.abs ∨ opa = Op.square then a else un op a)
    else if op = Op.neg then (if opa = Op.neg then v else un op a)
    else un op a
  | _ => un op a

/-- `Tree::binary` (tree.cpp).  The C++ recursion (`rhs - v->lhs`, `lhs + v->lhs`) strips one
    `neg` per call; `fuel` bounds it (at fuel 0 the default node is built, which is also what
    the C++ does when no rule applies). -/
def mkBinaryFuel (F : Folder) : Nat → Op → SExpr → SExpr → SExpr
  | 0, op, a, b => bin op a b
  | fuel + 1, op, a, b =>
    match a, b with
    | const ca, const cb => const (F.bin op ca cb)
    | _, _ =>
      match op with
      | Op.div =>
        match b with
        | const c => if isOneBits c then a else bin op a b
        | _ => bin op a b
      | Op.add =>
        match a with
        | const c => if isZeroBits c then b else bin op a b
        | _ =>
          match b with
          | const c => if isZeroBits c then a else bin op a b
          | _ =>
            match a with
            | un opa u => if opa = Op.neg then mkBinaryFuel F fuel Op.sub b u else bin op a b
            | _ =>
              match b with
              | un opb u => if opb = Op.neg then mkBinaryFuel F fuel Op.sub a u else bin op a b
              | _ => bin op a b
      | Op.sub =>
        match a with
        | const c => if isZeroBits c then mkUnary F Op.neg b else bin op a b
        | _ =>
          match b with
          | const c => if isZeroBits c then a else bin op a b
          | un opb u => if opb = Op.neg then mkBinaryFuel F fuel Op.add a u else bin op a b
          | _ => bin op a b
      | Op.mul =>
        match a with
        | const c =>
          if isZeroBits c then a else if isOneBits c then b
          else if isNegOneBits c then mkUnary F Op.neg b else bin op a b
        | _ =>
          match b with
          | const c =>
            if isZeroBits c then b else if isOneBits c then a
            else if isNegOneBits c then mkUnary F Op.neg a else bin op a b
          | _ => if a = b then mkUnary F Op.square a else bin op a b
      | Op.nthRoot | Op.pow =>
        match b with
        | const c => if isOneBits c then a else bin op a b
        | _ => bin op a b
      | Op.min | Op.max => if a = b then a else bin op a b
      | _ => bin op a b

def binaryFuel : Nat := 64

def mkBinary (F : Folder) (op : Op) (a b : SExpr) : SExpr := mkBinaryFuel F binaryFuel op a b

/-- `Tree::remap` (oracles are not modelled) -/
def mkRemap (t X Y Z : SExpr) : SExpr :=
  if X = SExpr.x ∧ Y = SExpr.y ∧ Z = SExpr.z then t
  else if t.hasXYZ then remap t X Y Z
  else t

/-! ### Meaning -/

structure Interp (α : Type) where
  cst : Nat → α
  un : Op → α → α
  bin : Op → α → α → α

structure Env (α : Type) where
  x : α
  y : α
  z : α
  v : Nat → α

def denote {α : Type} (I : Interp α) : SExpr → Env α → α
  | const c, _ => I.cst c
  | SExpr.x, ρ => ρ.x
  | SExpr.y, ρ => ρ.y
  | SExpr.z, ρ => ρ.z
  | var i, ρ => ρ.v i
  | un op a, ρ => I.un op (denote I a ρ)
  | bin op a b, ρ => I.bin op (denote I a ρ) (denote I b ρ)
  | remap t X Y Z, ρ =>
    denote I t { x := denote I X ρ, y := denote I Y ρ, z := denote I Z ρ, v := ρ.v }

/-! ### Literals -/

def c0 : SExpr := const 0                 -- 0.0f
def c1 : SExpr := const 0x3f800000        -- 1.0f
def c2 : SExpr := const 0x40000000        -- 2.0f
def c4 : SExpr := const 0x40800000        -- 4.0f
def cNeg1 : SExpr := const 0xbf800000     -- -1.0f
def c2_75 : SExpr := const 0x40300000     -- 2.75f
def cInf : SExpr := const 0x7f800000      -- +inf

def M_PI : Float := Float.ofBits 0x400921FB54442D18

/-- `Tree(double)`: `static_cast<float>` -/
def litD (d : Float) : SExpr := const d.toFloat32.toBits.toNat
/-- the same for doubles that come out of libm (`cos(M_PI / n)`) -/
def litDm (F : Folder) (d : Float) : SExpr := const (F.lit d.toFloat32.toBits.toNat)
/-- exact small literals (`Tree(i)` for an `int i`) -/
def litNat (n : Nat) : SExpr := const (Float32.ofNat n).toBits.toNat

structure V2 where
  x : SExpr
  y : SExpr
structure V3 where
  x : SExpr
  y : SExpr
  z : SExpr

section lib
variable (F : Folder)

local infixl:65 " +! " => mkBinary F Op.add
local infixl:65 " -! " => mkBinary F Op.sub
local infixl:70 " *! " => mkBinary F Op.mul
local infixl:70 " /! " => mkBinary F Op.div
local notation "neg!" => mkUnary F Op.neg
local notation "min!" => mkBinary F Op.min
local notation "max!" => mkBinary F Op.max
local notation "sqrt!" => mkUnary F Op.sqrt
local notation "square!" => mkUnary F Op.square
local notation "abs!" => mkUnary F Op.abs
local notation "sin!" => mkUnary F Op.sin
local notation "cos!" => mkUnary F Op.cos
local notation "exp!" => mkUnary F Op.exp
local notation "log!" => mkUnary F Op.log

-- operator overloads for C vecs
def v2add (a b : V2) : V2 := ⟨a.x +! b.x, a.y +! b.y⟩
def v2sub (a b : V2) : V2 := ⟨a.x -! b.x, a.y -! b.y⟩
def v2div (a : V2) (b : SExpr) : V2 := ⟨a.x /! b, a.y /! b⟩
def v3add (a b : V3) : V3 := ⟨a.x +! b.x, a.y +! b.y, a.z +! b.z⟩
def v3sub (a b : V3) : V3 := ⟨a.x -! b.x, a.y -! b.y, a.z -! b.z⟩
def v3neg (a : V3) : V3 := ⟨neg! a.x, neg! a.y, neg! a.z⟩
def v3div (a : V3) (b : SExpr) : V3 := ⟨a.x /! b, a.y /! b, a.z /! b⟩

/-! #### transforms (defined first: the shapes use `move`) -/

def move (t : SExpr) (o : V3) : SExpr :=
  mkRemap t (SExpr.x -! o.x) (SExpr.y -! o.y) (SExpr.z -! o.z)

def reflect_x (t x0 : SExpr) : SExpr := mkRemap t (c2 *! x0 -! SExpr.x) SExpr.y SExpr.z
def reflect_y (t y0 : SExpr) : SExpr := mkRemap t SExpr.x (c2 *! y0 -! SExpr.y) SExpr.z
def reflect_z (t z0 : SExpr) : SExpr := mkRemap t SExpr.x SExpr.y (c2 *! z0 -! SExpr.z)
def reflect_xy (t : SExpr) : SExpr := mkRemap t SExpr.y SExpr.x SExpr.z
def reflect_yz (t : SExpr) : SExpr := mkRemap t SExpr.x SExpr.z SExpr.y
def reflect_xz (t : SExpr) : SExpr := mkRemap t SExpr.z SExpr.y SExpr.x
def symmetric_x (t : SExpr) : SExpr := mkRemap t (abs! SExpr.x) SExpr.y SExpr.z
def symmetric_y (t : SExpr) : SExpr := mkRemap t SExpr.x (abs! SExpr.y) SExpr.z
def symmetric_z (t : SExpr) : SExpr := mkRemap t SExpr.x SExpr.y (abs! SExpr.z)

def scale_x (t sx x0 : SExpr) : SExpr :=
  mkRemap t (x0 +! (SExpr.x -! x0) /! sx) SExpr.y SExpr.z
def scale_y (t sy y0 : SExpr) : SExpr :=
  mkRemap t SExpr.x (y0 +! (SExpr.y -! y0) /! sy) SExpr.z
def scale_z (t sz z0 : SExpr) : SExpr :=
  mkRemap t SExpr.x SExpr.y (z0 +! (SExpr.z -! z0) /! sz)
def scale_xyz (t : SExpr) (s c : V3) : SExpr :=
  mkRemap t (c.x +! (SExpr.x -! c.x) /! s.x)
            (c.y +! (SExpr.y -! c.y) /! s.y)
            (c.z +! (SExpr.z -! c.z) /! s.z)

def rotate_x (t angle : SExpr) (c : V3) : SExpr :=
  let t := move F t ⟨neg! c.x, neg! c.y, neg! c.z⟩
  move F (mkRemap t SExpr.x
            (cos! angle *! SExpr.y +! sin! angle *! SExpr.z)
            (neg! (sin! angle) *! SExpr.y +! cos! angle *! SExpr.z)) c
def rotate_y (t angle : SExpr) (c : V3) : SExpr :=
  let t := move F t ⟨neg! c.x, neg! c.y, neg! c.z⟩
  move F (mkRemap t (cos! angle *! SExpr.x +! sin! angle *! SExpr.z)
            SExpr.y
            (neg! (sin! angle) *! SExpr.x +! cos! angle *! SExpr.z)) c
def rotate_z (t angle : SExpr) (c : V3) : SExpr :=
  let t := move F t ⟨neg! c.x, neg! c.y, neg! c.z⟩
  move F (mkRemap t (cos! angle *! SExpr.x +! sin! angle *! SExpr.y)
            (neg! (sin! angle) *! SExpr.x +! cos! angle *! SExpr.y) SExpr.z) c

def taper_x_y (shape : SExpr) (base : V2) (height scale base_scale : SExpr) : SExpr :=
  let s := height /! (scale *! SExpr.y +! base_scale *! (height -! SExpr.y))
  move F (mkRemap (move F shape ⟨neg! base.x, neg! base.y, c0⟩) (SExpr.x *! s) SExpr.y SExpr.z)
    ⟨base.x, base.y, c0⟩

def taper_xy_z (shape : SExpr) (base : V3) (height scale base_scale : SExpr) : SExpr :=
  let s := height /! (scale *! SExpr.z +! base_scale *! (height -! SExpr.z))
  move F (mkRemap (move F shape (v3neg F base)) (SExpr.x *! s) (SExpr.y *! s) SExpr.z) base

def shear_x_y (t : SExpr) (base : V2) (height offset base_offset : SExpr) : SExpr :=
  let f := (SExpr.y -! base.y) /! height
  mkRemap t (SExpr.x -! (base_offset *! (c1 -! f)) -! offset *! f) SExpr.y SExpr.z

/-- `attract_repel_generic`; `sign` is the literal ±1, `ax ay az` the axis mask -/
def attract_repel_generic (shape : SExpr) (locus : V3) (radius exaggerate sign : SExpr)
    (ax ay az : Bool) : SExpr :=
  let norm := sqrt! (square! (if ax then SExpr.x else c0) +!
                     square! (if ay then SExpr.y else c0) +!
                     square! (if az then SExpr.z else c0))
  let fallout := c1 +! sign *! exaggerate *! exp! (neg! norm /! radius)
  move F (mkRemap (move F shape (v3neg F locus))
            (SExpr.x *! (if ax then fallout else c1))
            (SExpr.y *! (if ay then fallout else c1))
            (SExpr.z *! (if az then fallout else c1)))
    locus

def repel (s : SExpr) (l : V3) (r e : SExpr) := attract_repel_generic F s l r e cNeg1 true true true
def repel_x (s : SExpr) (l : V3) (r e : SExpr) := attract_repel_generic F s l r e cNeg1 true false false
def repel_y (s : SExpr) (l : V3) (r e : SExpr) := attract_repel_generic F s l r e cNeg1 false true false
def repel_z (s : SExpr) (l : V3) (r e : SExpr) := attract_repel_generic F s l r e cNeg1 false false true
def repel_xy (s : SExpr) (l : V3) (r e : SExpr) := attract_repel_generic F s l r e cNeg1 true true false
def repel_yz (s : SExpr) (l : V3) (r e : SExpr) := attract_repel_generic F s l r e cNeg1 false true true
def repel_xz (s : SExpr) (l : V3) (r e : SExpr) := attract_repel_generic F s l r e cNeg1 true false true
def attract (s : SExpr) (l : V3) (r e : SExpr) := attract_repel_generic F s l r e c1 true true true
def attract_x (s : SExpr) (l : V3) (r e : SExpr) := attract_repel_generic F s l r e c1 true false false
def attract_y (s : SExpr) (l : V3) (r e : SExpr) := attract_repel_generic F s l r e c1 false true false
def attract_z (s : SExpr) (l : V3) (r e : SExpr) := attract_repel_generic F s l r e c1 false false true
def attract_xy (s : SExpr) (l : V3) (r e : SExpr) := attract_repel_generic F s l r e c1 true true false
def attract_yz (s : SExpr) (l : V3) (r e : SExpr) := attract_repel_generic F s l r e c1 false true true
def attract_xz (s : SExpr) (l : V3) (r e : SExpr) := attract_repel_generic F s l r e c1 true false true

/-! #### csg -/

def union (a b : SExpr) : SExpr := min! a b
def intersection (a b : SExpr) : SExpr := max! a b
def inverse (a : SExpr) : SExpr := neg! a
def difference (a b : SExpr) : SExpr := intersection F a (inverse F b)
def offset (a o : SExpr) : SExpr := a -! o
def clearance (a b o : SExpr) : SExpr := difference F a (offset F b o)
def shell (a o : SExpr) : SExpr := clearance F a a (neg! (abs! o))
def blend_expt (a b m : SExpr) : SExpr :=
  neg! (log! (exp! (neg! m *! a) +! exp! (neg! m *! b))) /! m
def blend_expt_unit (a b m : SExpr) : SExpr :=
  blend_expt F a b (c2_75 /! mkBinary F Op.pow m c2)
def blend_rough (a b m : SExpr) : SExpr :=
  let c := sqrt! (abs! a) +! sqrt! (abs! b) -! m
  union F a (union F b c)
def blend_difference (a b m o : SExpr) : SExpr :=
  inverse F (blend_expt_unit F (inverse F a) (offset F b o) m)
def morph (a b m : SExpr) : SExpr := a *! (c1 -! m) +! b *! m
def loft (a b zmin zmax : SExpr) : SExpr :=
  max! (SExpr.z -! zmax) (max! (zmin -! SExpr.z)
    (((SExpr.z -! zmin) *! b +! (zmax -! SExpr.z) *! a) /! (zmax -! zmin)))
def loft_between (a b : SExpr) (lower upper : V3) : SExpr :=
  let f := (SExpr.z -! lower.z) /! (upper.z -! lower.z)
  let g := (upper.z -! SExpr.z) /! (upper.z -! lower.z)
  let a := mkRemap a (SExpr.x +! (f *! (lower.x -! upper.x)))
                     (SExpr.y +! (f *! (lower.y -! upper.y))) SExpr.z
  let b := mkRemap b (SExpr.x +! (g *! (upper.x -! lower.x)))
                     (SExpr.y +! (g *! (upper.y -! lower.y))) SExpr.z
  loft F a b lower.z upper.z

/-! #### shapes -/

def extrude_z (t zmin zmax : SExpr) : SExpr :=
  max! t (max! (zmin -! SExpr.z) (SExpr.z -! zmax))

def circle (r : SExpr) (center : V2) : SExpr :=
  let c := sqrt! (SExpr.x *! SExpr.x +! SExpr.y *! SExpr.y) -! r
  move F c ⟨center.x, center.y, c0⟩

def ring (ro ri : SExpr) (center : V2) : SExpr :=
  difference F (circle F ro center) (circle F ri center)

def polygon (r : SExpr) (n : Nat) (center : V2) : SExpr :=
  let r := r *! litDm F (Float.cos (M_PI / n.toFloat))
  let half := SExpr.y -! r
  let out := (List.range (n - 1)).foldl (fun out k =>
      let i := k + 1
      intersection F out
        (rotate_z F half (litD (2 * M_PI * i.toFloat / n.toFloat)) ⟨c0, c0, c0⟩)) half
  move F out ⟨center.x, center.y, c0⟩

def rectangle (a b : V2) : SExpr :=
  max! (max! (a.x -! SExpr.x) (SExpr.x -! b.x)) (max! (a.y -! SExpr.y) (SExpr.y -! b.y))

def rounded_rectangle (a b : V2) (r : SExpr) : SExpr :=
  union F
    (union F (rectangle F ⟨a.x, a.y +! r⟩ ⟨b.x, b.y -! r⟩)
             (rectangle F ⟨a.x +! r, a.y⟩ ⟨b.x -! r, b.y⟩))
    (union F
      (union F (circle F r ⟨a.x +! r, a.y +! r⟩) (circle F r ⟨b.x -! r, b.y -! r⟩))
      (union F (circle F r ⟨a.x +! r, b.y -! r⟩) (circle F r ⟨b.x -! r, a.y +! r⟩)))

def rectangle_centered_exact (size center : V2) : SExpr :=
  let dx := abs! SExpr.x -! size.x /! c2
  let dy := abs! SExpr.y -! size.y /! c2
  move F (min! (max! dx dy) c0 +! sqrt! (square! (max! dx c0) +! square! (max! dy c0)))
    ⟨center.x, center.y, c0⟩

def rectangle_exact (a b : V2) : SExpr :=
  let size := v2sub F b a
  let center := v2div F (v2add F a b) c2
  rectangle_centered_exact F size center

def half_plane (a b : V2) : SExpr :=
  (b.y -! a.y) *! (SExpr.x -! a.x) -! (b.x -! a.x) *! (SExpr.y -! a.y)

def triangle (a b c : V2) : SExpr :=
  union F
    (intersection F (intersection F (half_plane F a b) (half_plane F b c)) (half_plane F c a))
    (intersection F (intersection F (half_plane F a c) (half_plane F c b)) (half_plane F b a))

def box_mitered (a b : V3) : SExpr :=
  extrude_z F (rectangle F ⟨a.x, a.y⟩ ⟨b.x, b.y⟩) a.z b.z

def box_mitered_centered (size center : V3) : SExpr :=
  box_mitered F (v3sub F center (v3div F size c2)) (v3add F center (v3div F size c2))

def box_exact_centered (size center : V3) : SExpr :=
  let dx := abs! (SExpr.x -! center.x) -! (size.x /! c2)
  let dy := abs! (SExpr.y -! center.y) -! (size.y /! c2)
  let dz := abs! (SExpr.z -! center.z) -! (size.z /! c2)
  min! c0 (max! dx (max! dy dz)) +!
    sqrt! (square! (max! dx c0) +! square! (max! dy c0) +! square! (max! dz c0))

def box_exact (a b : V3) : SExpr :=
  box_exact_centered F (v3sub F b a) (v3div F (v3add F a b) c2)

def rounded_box (a b : V3) (r : SExpr) : SExpr :=
  let d := v3sub F b a
  let r := r *! min! d.x (min! d.y d.z) /! c2
  let v : V3 := ⟨r, r, r⟩
  offset F (box_exact F (v3add F a v) (v3sub F b v)) r

def sphere (r : SExpr) (center : V3) : SExpr :=
  move F (sqrt! (square! SExpr.x +! square! SExpr.y +! square! SExpr.z) -! r) center

def half_space (norm point : V3) : SExpr :=
  (SExpr.x -! point.x) *! norm.x +! (SExpr.y -! point.y) *! norm.y +!
    (SExpr.z -! point.z) *! norm.z

def cylinder_z (r h : SExpr) (base : V3) : SExpr :=
  extrude_z F (circle F r ⟨base.x, base.y⟩) base.z (base.z +! h)

def cone_ang_z (angle height : SExpr) (base : V3) : SExpr :=
  move F (max! (neg! SExpr.z)
            (cos! angle *! sqrt! (square! SExpr.x +! square! SExpr.y)
              +! sin! angle *! SExpr.z -! height))
    base

def cone_z (radius height : SExpr) (base : V3) : SExpr :=
  cone_ang_z F (mkBinary F Op.atan2 radius height) height base

def pyramid_z (a b : V2) (zmin height : SExpr) : SExpr :=
  let dx := (b.x -! a.x) /! c2
  let hy_x := sqrt! (square! dx +! square! height)
  let short_x := min! dx height
  let mid_x := max! dx height
  let area_x := sqrt! ((hy_x +! (mid_x +! short_x)) *! (short_x -! (hy_x -! mid_x)) *!
                       (short_x +! (hy_x -! mid_x)) *! (hy_x +! (mid_x -! short_x))) /! c4
  let x_offset := c2 *! area_x /! hy_x
  let x_plane := neg! (SExpr.x *! height /! hy_x -! SExpr.z *! dx /! hy_x +! x_offset)
  let x_planes := intersection F x_plane (reflect_x F x_plane c0)
  let dy := (b.y -! a.y) /! c2
  let hy_y := sqrt! (square! dy +! square! height)
  let short_y := min! dy height
  let mid_y := max! dy height
  let area_y := sqrt! ((hy_y +! (mid_y +! short_y)) *! (short_y -! (hy_y -! mid_y)) *!
                       (short_y +! (hy_y -! mid_y)) *! (hy_y +! (mid_y -! short_y))) /! c4
  let y_offset := c2 *! area_y /! hy_y
  let y_plane := neg! (SExpr.y *! height /! hy_y -! SExpr.z *! dy /! hy_y +! y_offset)
  let y_planes := intersection F y_plane (reflect_y F y_plane c0)
  let planes := intersection F x_planes y_planes
  let out := intersection F planes (neg! SExpr.z)
  let px := (a.x +! b.x) /! c2
  let py := (a.y +! b.y) /! c2
  move F out ⟨px, py, zmin⟩

def torus_z (ro ri : SExpr) (center : V3) : SExpr :=
  move F (sqrt! (square! (ro -! sqrt! (square! SExpr.x +! square! SExpr.y))
            +! square! SExpr.z) -! ri) center

def gyroid (period : V3) (thickness : SExpr) : SExpr :=
  let tau := litD (2 * M_PI)
  shell F
    (sin! (SExpr.x *! period.x /! tau) *! cos! (SExpr.y *! period.y /! tau) +!
     sin! (SExpr.y *! period.y /! tau) *! cos! (SExpr.z *! period.z /! tau) +!
     sin! (SExpr.z *! period.z /! tau) *! cos! (SExpr.x *! period.x /! tau))
    (neg! thickness)

def emptiness : SExpr := cInf

def array_x (shape : SExpr) (nx : Nat) (dx : SExpr) : SExpr :=
  (List.range (nx - 1)).foldl (fun out k =>
    union F out (move F shape ⟨dx *! litNat (k + 1), c0, c0⟩)) shape

def array_xy (shape : SExpr) (nx ny : Nat) (delta : V2) : SExpr :=
  let shape := array_x F shape nx delta.x
  (List.range (ny - 1)).foldl (fun out k =>
    union F out (move F shape ⟨c0, delta.y *! litNat (k + 1), c0⟩)) shape

def array_xyz (shape : SExpr) (nx ny nz : Nat) (delta : V3) : SExpr :=
  let shape := array_xy F shape nx ny ⟨delta.x, delta.y⟩
  (List.range (nz - 1)).foldl (fun out k =>
    union F out (move F shape ⟨c0, c0, delta.z *! litNat (k + 1)⟩)) shape

def array_polar_z (shape : SExpr) (n : Nat) (center : V2) : SExpr :=
  -- `const float a = 2 * M_PI / n;`  then `i * a` in single precision
  let a : Float32 := (2 * M_PI / n.toFloat).toFloat32
  let c : V3 := ⟨center.x, center.y, c0⟩
  (List.range (n - 1)).foldl (fun out k =>
    let ia : Float32 := Float32.ofNat (k + 1) * a
    union F out (rotate_z F shape (const ia.toBits.toNat) c)) shape

def revolve_y (shape x0 : SExpr) : SExpr :=
  let r := sqrt! (square! SExpr.x +! square! SExpr.z)
  let center : V3 := ⟨x0, c0, c0⟩
  let shape := move F shape (v3neg F center)
  move F (union F (mkRemap shape r SExpr.y SExpr.z) (mkRemap shape (neg! r) SExpr.y SExpr.z)) center

def generic_centered_twirl_x (shape amount radius : SExpr) (vec : V3) : SExpr :=
  let norm := sqrt! (square! vec.x +! square! vec.y +! square! vec.z)
  let ca := cos! (amount *! exp! (neg! norm /! radius))
  let sa := sin! (amount *! exp! (neg! norm /! radius))
  mkRemap shape SExpr.x (ca *! SExpr.y +! sa *! SExpr.z) (ca *! SExpr.z -! sa *! SExpr.y)

def centered_twirl_x (shape amount radius : SExpr) : SExpr :=
  generic_centered_twirl_x F shape amount radius ⟨SExpr.x, SExpr.y, SExpr.z⟩
def centered_twirl_axis_x (shape amount radius : SExpr) : SExpr :=
  generic_centered_twirl_x F shape amount radius ⟨c0, SExpr.y, SExpr.z⟩

def generic_twirl_n (shape amount radius : SExpr) (center : V3)
    (method : SExpr → SExpr → SExpr → SExpr) (rm : SExpr → SExpr) : SExpr :=
  let shape := move F shape (v3neg F center)
  let shape := rm shape
  let shape := method shape amount radius
  let shape := rm shape
  move F shape center

def twirl_x (s a r : SExpr) (c : V3) := generic_twirl_n F s a r c (centered_twirl_x F) id
def twirl_axis_x (s a r : SExpr) (c : V3) := generic_twirl_n F s a r c (centered_twirl_axis_x F) id
def twirl_y (s a r : SExpr) (c : V3) := generic_twirl_n F s a r c (centered_twirl_x F) reflect_xy
def twirl_axis_y (s a r : SExpr) (c : V3) := generic_twirl_n F s a r c (centered_twirl_axis_x F) reflect_xy
def twirl_z (s a r : SExpr) (c : V3) := generic_twirl_n F s a r c (centered_twirl_x F) reflect_xz
def twirl_axis_z (s a r : SExpr) (c : V3) := generic_twirl_n F s a r c (centered_twirl_axis_x F) reflect_xz

end lib

end Libfive.Stdlib
