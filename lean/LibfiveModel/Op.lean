/-
  Opcodes of libfive (libfive/include/libfive/tree/opcode.hpp).
  `Op.code` is the *pinned* on-disk numbering (the specification for C08);
  the table actually present in /repo is regenerated into `Generated/Opcodes.lean`
  on every run and compared with this one by a kernel-checked `decide`.
-/
namespace Libfive

inductive Op
  | invalid | constant | varX | varY | varZ | varFree | constVar
  | square | sqrt | neg | sin | cos | tan | asin | acos | atan | exp | abs | log | recip
  | add | mul | min | max | sub | div | atan2 | pow | nthRoot | mod | nanfill | compare
  | oracle
deriving DecidableEq, Repr, Inhabited, Hashable

namespace Op

def all : List Op :=
  [invalid, constant, varX, varY, varZ, varFree, constVar,
   square, sqrt, neg, sin, cos, tan, asin, acos, atan, exp, abs, log, recip,
   add, mul, min, max, sub, div, atan2, pow, nthRoot, mod, nanfill, compare, oracle]

/-- Pinned numeric code of every opcode (unpacked numbering). -/
def code : Op → Nat
  | invalid => 0 | constant => 1 | varX => 2 | varY => 3 | varZ => 4 | varFree => 5
  | constVar => 6 | square => 7 | sqrt => 8 | neg => 9 | sin => 10 | cos => 11 | tan => 12
  | asin => 13 | acos => 14 | atan => 15 | exp => 16 | abs => 28 | log => 30 | recip => 29
  | add => 17 | mul => 18 | min => 19 | max => 20 | sub => 21 | div => 22 | atan2 => 23
  | pow => 24 | nthRoot => 25 | mod => 26 | nanfill => 27 | compare => 31 | oracle => 32

/-- C++ enumerator name. -/
def cname : Op → String
  | invalid => "INVALID" | constant => "CONSTANT" | varX => "VAR_X" | varY => "VAR_Y"
  | varZ => "VAR_Z" | varFree => "VAR_FREE" | constVar => "CONST_VAR"
  | square => "OP_SQUARE" | sqrt => "OP_SQRT" | neg => "OP_NEG" | sin => "OP_SIN"
  | cos => "OP_COS" | tan => "OP_TAN" | asin => "OP_ASIN" | acos => "OP_ACOS"
  | atan => "OP_ATAN" | exp => "OP_EXP" | abs => "OP_ABS" | log => "OP_LOG"
  | recip => "OP_RECIP" | add => "OP_ADD" | mul => "OP_MUL" | min => "OP_MIN"
  | max => "OP_MAX" | sub => "OP_SUB" | div => "OP_DIV" | atan2 => "OP_ATAN2"
  | pow => "OP_POW" | nthRoot => "OP_NTH_ROOT" | mod => "OP_MOD" | nanfill => "OP_NANFILL"
  | compare => "OP_COMPARE" | oracle => "ORACLE"

/-- Number of tree operands (`Opcode::args`); `none` for INVALID. -/
def args : Op → Option Nat
  | invalid => none
  | constant | varX | varY | varZ | varFree | oracle => some 0
  | constVar | square | sqrt | neg | sin | cos | tan | asin | acos | atan | exp | abs | log
  | recip => some 1
  | add | mul | min | max | sub | div | atan2 | pow | nthRoot | mod | nanfill | compare => some 2

def isCommutative : Op → Bool
  | add | mul | min | max => true
  | _ => false

def isIdempotent : Op → Bool
  | min | max => true
  | _ => false

def ofCode? (n : Nat) : Option Op := all.find? (fun o => o.code == n)

def ofCName? (s : String) : Option Op := all.find? (fun o => o.cname == s)

/-- short lower-case name used in the line protocols (`toScmString`-like, `-` for `_`). -/
def pname (o : Op) : String :=
  let s := o.cname
  let s := if s.startsWith "OP_" then (s.drop 3).toString else s
  (s.map Char.toLower).replace "_" "-"

def ofPName? (s : String) : Option Op := all.find? (fun o => o.pname == s)

end Op
end Libfive
