/-
  Model of the scratch state of libfive's evaluators (eval_array.cpp, eval_deriv_array.cpp,
  eval_feature.cpp, eval_jacobian.cpp, eval_interval.cpp, evaluator.hpp) and of every query as a
  function `State → State × Answer`.

  Everything the C++ keeps between calls is explicit: value rows × columns `v`, derivative rows
  `d`, per-slot feature lists `f`, interval slots `ivl`, `count_simd` / `count_actual`,
  `clear_vars`, `filled`, the Jacobian array `j`.  Tapes are arguments of the queries (they are
  values owned by the caller; `Deck::disabled/remap` are fully re-initialised by `Tape::push`, which
  the model of Tape.lean reflects by not taking them as input at all).

  The model reads what the code reads: batched kernels run over `count_simd` columns (stale
  X/Y/Z columns included), the feature walk takes its stale scratch (`count_simd`, `d` columns,
  output value rows) from the state.  Core Lean only.
-/
import LibfiveModel.Deriv

namespace Libfive

structure EState (α β : Type) where
  v : Nat → Nat → α              -- v(slot, column)
  d : Nat → Nat → Nat → α        -- d(slot)(row, column)
  f : Nat → List (Feat α)
  ivl : Nat → β
  countSimd : Nat
  countActual : Nat
  clearVars : Bool
  filled : Nat → Nat
  j : Nat → α

/-- static part of an evaluator: slots of the deck and the kernels -/
structure ECfg (α β : Type) where
  X : Nat
  Y : Nat
  Z : Nat
  ev : Op → α → α → α
  orc : Nat → α
  O : DOps α
  iev : Op → β → β → β
  iorc : Nat → β
  mkI : α → α → β
  simd : Nat
  N : Nat
  vars : Array Nat
  F : FeatOracle α
  dedup : List (Feat α) → List (Feat α)
  normPos : V3 α → Bool          -- `deriv.norm() > 0`
  check : Feat α → V3 α → Bool   -- `Feature::check(e)`
  ne : α → α → Bool              -- `!=` on floats
  ine : β → α → Bool             -- `i.lower() != x || i.upper() != x`

variable {α β : Type}

abbrev Pt (α : Type) := α × α × α

/-- `set(p, index)` for a batch: column `k` receives point `k` (X, Y, Z rows only) -/
def setPts (C : ECfg α β) (s : EState α β) (pts : List (Pt α)) : Nat → Nat → α :=
  fun k col => match pts[col]? with
    | some p => if k = C.X then p.1 else if k = C.Y then p.2.1 else if k = C.Z then p.2.2 else s.v k col
    | none => s.v k col

/-- value pass over `count_simd` columns: every evaluated column is an independent `evalList` -/
def valuePass (C : ECfg α β) (T : List Clause) (v0 : Nat → Nat → α) (cs : Nat) : Nat → Nat → α :=
  fun k col => if col < cs then evalList C.ev C.orc T (fun k' => v0 k' col) k else v0 k col

/-- `ArrayEvaluator::values(count, tape)` after `set`ting the points (value(p) is the case of one
    point).  Answer: the root's value in columns `0..count-1`. -/
def qValues (C : ECfg α β) (T : TapeM) (pts : List (Pt α)) (s : EState α β) : EState α β × List α :=
  let cs := simdRound C.simd pts.length
  let v' := valuePass C T.t (setPts C s pts) cs
  ({ s with v := v', countSimd := cs, countActual := pts.length },
   (List.range pts.length).map fun col => v' T.root col)

/-- `DerivArrayEvaluator::derivs(count, tape)`: value pass, then the derivative pass lane by lane
    (seeds are whatever `d` holds in the leaf rows; `clear_vars` is read from the state). -/
def qDerivs (C : ECfg α β) (T : TapeM) (pts : List (Pt α)) (s : EState α β) :
    EState α β × List (V3 α × α) :=
  let cs := simdRound C.simd pts.length
  let v' := valuePass C T.t (setPts C s pts) cs
  let d' : Nat → Nat → Nat → α := fun k row col =>
    if col < cs then derivRow C.O s.clearVars (fun k' => v' k' col) T.t (fun k' => s.d k' row col) k
    else s.d k row col
  ({ s with v := v', d := d', countSimd := cs, countActual := pts.length },
   (List.range pts.length).map fun col =>
     (⟨d' T.root 0 col, d' T.root 1 col, d' T.root 2 col⟩, v' T.root col))

/-- `IntervalEvaluator::eval(lower, upper, tape)` -/
def qInterval (C : ECfg α β) (T : TapeM) (lo hi : Pt α) (s : EState α β) : EState α β × β :=
  let i0 : Nat → β := fun k =>
    if k = C.X then C.mkI lo.1 hi.1 else if k = C.Y then C.mkI lo.2.1 hi.2.1
    else if k = C.Z then C.mkI lo.2.2 hi.2.2 else s.ivl k
  let i' := evalList C.iev C.iorc T.t i0
  ({ s with ivl := i' }, i' T.root)

/-- `Evaluator::updateVars` for one variable: both the array and the interval copy are stored;
    returns whether either stored value differed. -/
def qSetVar (C : ECfg α β) (slot : Nat) (x : α) (s : EState α β) : EState α β × Bool :=
  let changed := C.ne (s.v slot 0) x || C.ine (s.ivl slot) x
  ({ s with v := fun k col => if k = slot then x else s.v k col,
            ivl := fun k => if k = slot then C.mkI x x else s.ivl k }, changed)

/-- `JacobianEvaluator::gradient(p, tape)`: whole X/Y/Z rows loaded, `clear_vars` on, lanes seeded
    per `jacSeed`, each lane evaluated on ITS column's values; epilogue: `d` cleared, X/Y/Z seeds
    reloaded, `clear_vars` off. -/
def qGradient (C : ECfg α β) (T : TapeM) (p : Pt α) (s : EState α β) : EState α β × List α :=
  let vg : Nat → Nat → α := fun k col =>
    if k = C.X then p.1 else if k = C.Y then p.2.1 else if k = C.Z then p.2.2 else s.v k col
  let nv := C.vars.size
  let lastCount := if nv = 0 then 0 else if nv % jacLanes C.N = 0 then jacLanes C.N else nv % jacLanes C.N
  let cs := if nv = 0 then s.countSimd else simdRound C.simd (jacColumns (min nv (jacLanes C.N)))
  let v' := if nv = 0 then vg else valuePass C T.t vg cs
  let ans := (List.range nv).map fun i =>
    let sl := jacSlot C.N i
    derivRow C.O true (evalList C.ev C.orc T.t (fun k => vg k sl.2.2)) T.t (jacSeed C.O C.N C.vars sl) T.root
  ({ s with v := v', countSimd := if nv = 0 then s.countSimd else simdRound C.simd (jacColumns lastCount),
            clearVars := false,
            d := fun k row _ => spatialSeed C.O C.X C.Y C.Z row k,
            j := fun i => ans.getD i C.O.zero }, ans)

/-- the specialised tape `valueAndPush(p, tape)` returns (keep function from column 0 of this
    call's own value pass) -/
def pushedTape (C : ECfg α β) (T : TapeM) (p : Pt α) (s : EState α β) : TapeM :=
  T.push (pointKeep C.O.lt (fun k => valuePass C T.t (setPts C s [p]) (simdRound C.simd 1) k 0))

/-- `FeatureEvaluator::features_(p, tape)`: `valueAndPush`, `filled = 1`, feature walk over the
    specialised tape.  Since aa9f57c / 3ea66fb the array-wise paths read no scratch of earlier
    calls (see `featUnary`): the walk depends on column 0 of this call's value pass and on the
    leaf feature lists only.
    Not modelled: the walk also WRITES operand feature derivatives into `d(a)` lanes and replicates
    value rows; for leaf operands these writes store the seed values again (leaf feature = seed),
    which the C15 driver checks on the real evaluator after every query (`seedsok`). -/
def qFeatures (C : ECfg α β) (T : TapeM) (p : Pt α) (s : EState α β) : EState α β × List (Feat α) :=
  let cs := simdRound C.simd 1
  let v' := valuePass C T.t (setPts C s [p]) cs
  let T' := pushedTape C T p s
  let st := featList C.O C.F C.dedup s.clearVars C.N C.simd (fun k => v' k 0) T'.t ⟨s.f, cs⟩
  ({ s with v := v', f := st.f, countSimd := st.countSimd, countActual := 1, filled := fun _ => 1 },
   st.f T'.root)

/-- `FeatureEvaluator::features`: the deduplicated derivatives -/
def qFeatureList (C : ECfg α β) (T : TapeM) (p : Pt α) (s : EState α β) : EState α β × List (V3 α) :=
  let r := qFeatures C T p s
  (r.1, uniqDerivs C.F.veq r.2)

/-- `FeatureEvaluator::isInside`: the sign decides when the value is non-zero (no feature walk,
    feature lists untouched); at value 0 the features of the root decide. -/
def qIsInside (C : ECfg α β) (T : TapeM) (p : Pt α) (s : EState α β) : EState α β × Bool :=
  let r := qFeatures C T p s
  let value := r.1.v T.root 0
  match insideBySign C.O.lt C.O.zero value with
  | some b => ({ s with v := r.1.v, countSimd := simdRound C.simd 1, countActual := 1 }, b)
  | none => (r.1, insideByFeatures C.normPos C.F.negv C.check r.2)

/-- `count_simd` a feature walk leaves behind, from the operand feature counts alone (what the
    C15 driver replays): every array-wise clause with at least one lane does `setCount`. -/
def featCountWalk (N simd : Nat) (count : Nat → Nat) : List Clause → Nat → Nat
  | [], cs => cs
  | c :: rest, cs =>
    let cs := featCountWalk N simd count rest cs
    if c.op = Op.min ∨ c.op = Op.max then cs
    else if c.op.args = some 1 then
      (if count c.a = 0 then cs else simdRound simd (lastChunk N (count c.a)))
    else if c.op.args = some 2 then
      (if count c.a * count c.b = 0 then cs else simdRound simd (lastChunk N (count c.a * count c.b)))
    else cs

end Libfive
