/-
  Model (b) for C11 (shared with C03 / C20): the worker pool of
  libfive/src/render/brep/worker_pool.inl (`WorkerPool::run`) as a transition system, and the
  `pending` counter protocol of one branch (xtree.hpp `pending`, `collectChildren`, the
  `for (t = t->parent; t && t->pending-- == 0; …)` loops of dual.hpp and simplex_tree.inl).
  Core Lean only.
-/

namespace Libfive.Pool

/-! ## one branch: the `pending` counter -/

/-- `pending--` on a `std::atomic_uint`: returns the old value; 0 wraps around -/
def fetchSub (p : Nat) : Nat × Nat := (p, if p = 0 then 2 ^ 32 - 1 else p - 1)

/-- what the children of one branch do to it: child `i` installs itself (`done()` stores the
    pointer into `parent->children[i]`), later its thread executes `pending--` on the parent -/
inductive BEv
  | install (i : Nat)
  | dec (i : Nat)
deriving DecidableEq, Repr

def BEv.child : BEv → Nat
  | .install i => i
  | .dec i => i

structure BState where
  pending : Nat
  installed : List Nat
  arrived : List Nat       -- children whose `pending--` has executed, most recent first
  collectors : List Nat    -- children whose `pending--` returned 0 (they run `collectChildren`)
deriving DecidableEq, Repr

/-- `pending` is initialised to `(1 << N) - 1`; `n = 2^N` is the number of children -/
def BState.init (n : Nat) : BState := ⟨n - 1, [], [], []⟩

/-- One atomic step.  Program order inside a child: it decrements only after it has installed
    itself, and does each once.  Nothing else is assumed about the interleaving. -/
def bstep (s : BState) : BEv → Option BState
  | .install i =>
    if i ∈ s.installed then none else some { s with installed := i :: s.installed }
  | .dec i =>
    if i ∈ s.installed ∧ i ∉ s.arrived then
      some { s with pending := (fetchSub s.pending).2, arrived := i :: s.arrived,
                    collectors := if (fetchSub s.pending).1 = 0 then i :: s.collectors else s.collectors }
    else none

def brun : BState → List BEv → Option BState
  | s, [] => some s
  | s, e :: es => match bstep s e with
    | some s' => brun s' es
    | none => none

/-! ## the worker pool -/

inductive Kind | amb | term | leaf
deriving DecidableEq, Repr, Inhabited

/-- where a worker is between two hook points -/
inductive Act
  | idle                 -- at the `while (!done && !cancel)` check
  | inLoop               -- passed the check, about to pick a task
  | eval (c : Nat)       -- popped `c`; evaluating it
  | split (c : Nat)      -- `c` is ambiguous: pushing its children
  | ascend (c : Nat)     -- `c` is complete (leaf, unambiguous, or collected): `up()`; collect the parent
  | exited
deriving DecidableEq, Repr, Inhabited

def upd {β : Type} (f : Nat → β) (k : Nat) (x : β) : Nat → β := fun j => if j = k then x else f j

structure S where
  n : Nat                          -- children per branch (2^N)
  cap : Nat                        -- capacity of the bounded lock-free stack (= workers)
  bag : List Nat                   -- tasks in the lock-free stack
  loc : List (Nat × Nat)           -- per-worker local stacks, merged: (worker, cell), most recent first
  act : Nat → Act
  level : Nat → Nat                -- of created cells
  parent : Nat → Option Nat
  created : List Nat
  kids : Nat → Nat                 -- how many children a cell has pushed so far
  pending : Nat → Nat
  pushed : List Nat                -- ghost: every task ever pushed
  popped : List Nat                -- ghost: every task ever popped
  collected : List Nat             -- ghost: branches whose collectChildren ran to the end
  done : Bool
  cancel : Bool

/-- `root` is created with `new T(nullptr, 0, region)` and pushed before the workers start -/
def S.init (n cap rootLevel : Nat) : S :=
  { n := n, cap := cap, bag := [0], loc := [], act := fun _ => .idle,
    level := fun _ => rootLevel, parent := fun _ => none, created := [0], kids := fun _ => 0,
    pending := fun _ => n - 1, pushed := [0], popped := [], collected := [], done := false,
    cancel := false }

inductive Ev
  | loop (w : Nat)                         -- check passed
  | pop (w c : Nat)                        -- task obtained (local stack first, else the bag)
  | noTask (w : Nat)                       -- both empty: `continue`
  | push (w child : Nat) (toLocal : Bool)  -- next child of the cell being evaluated
  | evalDone (w : Nat) (k : Kind)
  | collect (w : Nat) (last : Bool)        -- `collectChildren(parent)`: `pending--`, last = saw 0
  | exitLoop (w : Nat)                     -- check failed (done or cancel) → leave, `done = true`
  | exitRoot (w : Nat)                     -- walked past the root (`t == nullptr`) → break, `done = true`
  | cancel                                 -- the environment raises the flag
deriving DecidableEq, Repr

def Ev.worker : Ev → Option Nat
  | .loop w | .pop w _ | .noTask w | .push w _ _ | .evalDone w _ | .collect w _ | .exitLoop w | .exitRoot w => some w
  | .cancel => none

def step (s : S) : Ev → Option S
  | .cancel => some { s with cancel := true }
  | .loop w =>
    if s.act w = .idle ∧ s.done = false ∧ s.cancel = false then some { s with act := upd s.act w .inLoop }
    else none
  | .exitLoop w =>
    if s.act w = .idle ∧ (s.done = true ∨ s.cancel = true) then
      some { s with act := upd s.act w .exited, done := true }
    else none
  | .noTask w =>
    if s.act w = .inLoop ∧ s.loc.find? (fun e => e.1 == w) = none ∧ s.bag = [] then
      some { s with act := upd s.act w .idle }
    else none
  | .pop w c =>
    if s.act w = .inLoop then
      match s.loc.find? (fun e => e.1 == w) with
      | some e =>
        if e.2 = c then some { s with loc := s.loc.erase e, act := upd s.act w (.eval c), popped := c :: s.popped }
        else none
      | none =>
        if c ∈ s.bag then
          some { s with bag := s.bag.erase c, act := upd s.act w (.eval c), popped := c :: s.popped }
        else none
    else none
  | .push w child toLocal =>
    match s.act w with
    | .split c =>
      if child ∉ s.created ∧ 0 < s.level c ∧ s.kids c < s.n ∧
          (toLocal = true ↔ s.cap ≤ s.bag.length) then
        some { s with
          act := upd s.act w (if s.kids c + 1 = s.n then .idle else .split c)
          bag := if toLocal then s.bag else child :: s.bag
          loc := if toLocal then (w, child) :: s.loc else s.loc
          level := upd s.level child (s.level c - 1)
          parent := upd s.parent child (some c)
          created := child :: s.created
          kids := upd (upd s.kids c (s.kids c + 1)) child 0
          pending := upd s.pending child (s.n - 1)
          pushed := child :: s.pushed }
      else none
    | _ => none
  | .evalDone w k =>
    match s.act w with
    | .eval c =>
      match k with
      | .amb => if s.kids c = 0 ∧ 0 < s.level c ∧ 0 < s.n then some { s with act := upd s.act w (.split c) } else none
      | .term => if s.kids c = 0 ∧ 0 < s.level c then some { s with act := upd s.act w (.ascend c) } else none
      | .leaf => if s.kids c = 0 ∧ s.level c = 0 then some { s with act := upd s.act w (.ascend c) } else none
    | _ => none
  | .collect w last =>
    match s.act w with
    | .ascend c =>
      match s.parent c with
      | some p =>
        if last = decide ((fetchSub (s.pending p)).1 = 0) then
          some { s with
            pending := upd s.pending p (fetchSub (s.pending p)).2
            collected := if last then p :: s.collected else s.collected
            act := upd s.act w (if last then .ascend p else .idle) }
        else none
      | none => none
    | _ => none
  | .exitRoot w =>
    match s.act w with
    | .ascend c => if s.parent c = none then some { s with act := upd s.act w .exited, done := true } else none
    | _ => none

def run : S → List Ev → Option S
  | s, [] => some s
  | s, e :: es => match step s e with
    | some s' => run s' es
    | none => none

/-- steps that do not make progress by themselves (spinning) -/
def Ev.isSpin : Ev → Bool
  | .loop _ | .noTask _ | .cancel => true
  | _ => false

end Libfive.Pool
