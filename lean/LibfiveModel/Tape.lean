/-
  Model of libfive's evaluation tapes (libfive/src/eval/tape.cpp, deck.cpp, eval_array.cpp):
  clause lists, evaluation, and `Tape::push` (tape specialisation).

  Everything is polymorphic in the value type `α`; the correspondence runs instantiate it
  at `Float32`, the theorems hold for every `α`.
-/
import LibfiveModel.Op

namespace Libfive

/-- `Clause` as in libfive/include/libfive/eval/clause.hpp: opcode, output slot, operand slots.
    Slot 0 is the dummy slot; unary clauses have `b = 0`; for ORACLE `a` is an oracle index. -/
structure Clause where
  op : Op
  id : Nat
  a : Nat
  b : Nat
deriving DecidableEq, Repr, Inhabited

/-- `Tape::Keep` -/
inductive Keep | a | b | both | always
deriving DecidableEq, Repr, Inhabited

/-- functional update -/
def upd {β : Type} (f : Nat → β) (k : Nat) (x : β) : Nat → β :=
  fun j => if j = k then x else f j

@[simp] theorem upd_same {β} (f : Nat → β) (k : Nat) (x : β) : upd f k x k = x := by simp [upd]
theorem upd_other {β} (f : Nat → β) (k j : Nat) (x : β) (h : j ≠ k) : upd f k x j = f j := by
  simp [upd, h]

/-- How one clause computes its output from the slot array.  `ev` interprets ordinary opcodes,
    `orc k` is the value oracle number `k` returns (it does not read slots). -/
def evalClause {α : Type} (ev : Op → α → α → α) (orc : Nat → α) (c : Clause) (v : Nat → α) : α :=
  if c.op = Op.oracle then orc c.a else ev c.op (v c.a) (v c.b)

/-- Evaluate a clause list stored root-first (as `Tape::t` is); the evaluators iterate
    `rbegin..rend`, i.e. the *tail is evaluated first*. -/
def evalList {α : Type} (ev : Op → α → α → α) (orc : Nat → α) : List Clause → (Nat → α) → (Nat → α)
  | [], v => v
  | c :: rest, v =>
    let v' := evalList ev orc rest v
    upd v' c.id (evalClause ev orc c v')

/-- Strict wrapper: Lean compiles a definition whose result type is a function by adding the
    extra argument, which would re-run `evalList` on the tail at every slot lookup.  The driver
    therefore runs this structurally identical version (`evalListS_get` proves they agree). -/
structure Slots (α : Type) where
  get : Nat → α

def evalListS {α : Type} (ev : Op → α → α → α) (orc : Nat → α) : List Clause → Slots α → Slots α
  | [], v => v
  | c :: rest, v =>
    let v' := evalListS ev orc rest v
    ⟨upd v'.get c.id (evalClause ev orc c v'.get)⟩

theorem evalListS_get {α : Type} (ev : Op → α → α → α) (orc : Nat → α) (t : List Clause)
    (v : Nat → α) : (evalListS ev orc t ⟨v⟩).get = evalList ev orc t v := by
  induction t with
  | nil => rfl
  | cons c rest ih => simp only [evalListS, evalList, ih]

/-- Scratch state of `Deck` used by `push`: `disabled` and `remap` arrays. -/
structure PushState where
  disabled : Nat → Bool
  remap : Nat → Nat

/-- initial scratch state: `std::fill(disabled, true)`, `std::fill(remap, 0)`, root enabled -/
def PushState.init (root : Nat) : PushState :=
  { disabled := upd (fun _ => true) root false, remap := fun _ => 0 }

/-- one iteration of the first loop of `Tape::push` -/
def pushStep (keep : Clause → Keep) (S : PushState) (c : Clause) : PushState :=
  if S.disabled c.id then S else
    let S1 : PushState :=
      match keep c with
      | Keep.a => { disabled := upd S.disabled c.a false, remap := upd S.remap c.id c.a }
      | Keep.b => { disabled := upd S.disabled c.b false, remap := upd S.remap c.id c.b }
      | _ => S
    if S1.remap c.id ≠ 0 then
      { S1 with disabled := upd S1.disabled c.id true }
    else if c.op ≠ Op.oracle then
      { S1 with disabled := upd (upd S1.disabled c.a false) c.b false }
    else S1

def pushPass1 (keep : Clause → Keep) (t : List Clause) (S : PushState) : PushState :=
  t.foldl (pushStep keep) S

/-- `for (r = s; remap[r]; r = remap[r]);` with explicit fuel -/
def resolve (remap : Nat → Nat) : Nat → Nat → Nat
  | 0, s => s
  | fuel + 1, s => if remap s = 0 then s else resolve remap fuel (remap s)

/-- second loop of `Tape::push` -/
def emit (S : PushState) (fuel : Nat) (t : List Clause) : List Clause :=
  t.filterMap fun c =>
    if S.disabled c.id then none
    else if c.op = Op.oracle then some c
    else some { c with a := resolve S.remap fuel c.a, b := resolve S.remap fuel c.b }

/-- does the first loop report `changed`? (some visited clause returned KEEP_A / KEEP_B) -/
def pushChanged (keep : Clause → Keep) : List Clause → PushState → Bool
  | [], _ => false
  | c :: rest, S =>
    (!S.disabled c.id && (keep c == Keep.a || keep c == Keep.b)) ||
      pushChanged keep rest (pushStep keep S c)

/-- does the first loop leave `terminal = true`? (no visited clause returned KEEP_BOTH) -/
def pushTerminal (keep : Clause → Keep) : List Clause → PushState → Bool
  | [], _ => true
  | c :: rest, S =>
    !(!S.disabled c.id && keep c == Keep.both) && pushTerminal keep rest (pushStep keep S c)

structure TapeM where
  t : List Clause
  root : Nat
  terminal : Bool := false
deriving Repr, Inhabited

/-- `Tape::push` (oracle contexts omitted: plain-expression tapes). -/
def TapeM.push (T : TapeM) (keep : Clause → Keep) : TapeM :=
  if T.terminal then T else
  let S0 := PushState.init T.root
  if !pushChanged keep T.t S0 then T else
  let S := pushPass1 keep T.t S0
  let fuel := T.t.length
  { t := emit S fuel T.t, root := resolve S.remap fuel T.root,
    terminal := pushTerminal keep T.t S0 }

/-- clause ids of a list -/
def ids (t : List Clause) : List Nat := t.map (·.id)

/-- Well-formed clause list: ids are non-zero and distinct, and operands never refer to the
    clause itself or to a clause *earlier in the list* (closer to the root).
    This is what `Deck::Deck` establishes (children get larger... smaller ids are closer to
    the root and the list is stored root-first). -/
def WF : List Clause → Prop
  | [] => True
  | c :: rest => c.id ≠ 0 ∧ c.id ∉ ids rest ∧ (c.op ≠ Op.oracle → c.a ≠ c.id ∧ c.b ≠ c.id) ∧
      (∀ d ∈ rest, d.op ≠ Op.oracle → d.a ≠ c.id ∧ d.b ≠ c.id) ∧ WF rest

/-- executable well-formedness test used by the correspondence run on every dumped tape -/
def wfb : List Clause → Bool
  | [] => true
  | c :: rest => c.id != 0 && !(ids rest).contains c.id &&
      (c.op == Op.oracle || (c.a != c.id && c.b != c.id)) &&
      rest.all (fun d => d.op == Op.oracle || (d.a != c.id && d.b != c.id)) && wfb rest

/-! ### keep functions of the two callers -/

/-- `ArrayEvaluator::valueAndPush`'s keep function, on already computed slot values -/
def pointKeep {α : Type} (lt : α → α → Bool) (v : Nat → α) (c : Clause) : Keep :=
  if c.op = Op.max then
    if lt (v c.b) (v c.a) then Keep.a else if lt (v c.a) (v c.b) then Keep.b else Keep.both
  else if c.op = Op.min then
    if lt (v c.b) (v c.a) then Keep.b else if lt (v c.a) (v c.b) then Keep.a else Keep.both
  else Keep.always

/-- `IntervalEvaluator::push`'s keep function on the per-slot interval bounds
    (`i[a].lower() > i[b].upper()` is `lt (hi b) (lo a)`) and maybe-NaN flags (`safe s` is
    `i[s].isSafe()`).  Mirrors the code after fix c73cfff: the point kernels return operand `a`
    whenever either operand is NaN, so `b` may replace the clause only if neither operand can be
    NaN; note the different order of the two tests in the `max` and `min` branches. -/
def intervalKeep {β : Type} (lt : β → β → Bool) (lo hi : Nat → β) (safe : Nat → Bool)
    (c : Clause) : Keep :=
  if c.op = Op.max then
    if c.a = c.b then Keep.a
    else if lt (hi c.b) (lo c.a) then Keep.a
    else if lt (hi c.a) (lo c.b) && safe c.a && safe c.b then Keep.b
    else Keep.both
  else if c.op = Op.min then
    if c.a = c.b then Keep.a
    else if lt (hi c.b) (lo c.a) && safe c.a && safe c.b then Keep.b
    else if lt (hi c.a) (lo c.b) then Keep.a
    else Keep.both
  else Keep.always

/-! ### tape stacks and `getBase` -/

inductive TapeType | base | interval | specialized | feature
deriving DecidableEq, Repr, Inhabited

/-- One tape of a push chain together with the region it was specialised to.  The list is
    innermost first; the last element is the base tape.  Regions use an abstract ordered type
    through `le`. -/
structure StackEntry (β : Type) where
  type : TapeType
  lo : β × β × β
  hi : β × β × β
  tape : TapeM

def boxContains {β : Type} (le : β → β → Bool) (e : StackEntry β) (lo hi : β × β × β) : Bool :=
  le e.lo.1 lo.1 && le hi.1 e.hi.1 &&
  le e.lo.2.1 lo.2.1 && le hi.2.1 e.hi.2.1 &&
  le e.lo.2.2 lo.2.2 && le hi.2.2 e.hi.2.2

/-- `Tape::getBase(region)`: walk towards the base until an INTERVAL tape containing the query
    (`getBase(point)` is the case `lo = hi`).  Returns the suffix of the stack starting at the
    chosen tape. -/
def getBase {β : Type} (le : β → β → Bool) : List (StackEntry β) → (β × β × β) → (β × β × β) →
    List (StackEntry β)
  | [], _, _ => []
  | [e], _, _ => [e]
  | e :: rest, lo, hi =>
    if e.type = TapeType.interval && boxContains le e lo hi then e :: rest
    else getBase le rest lo hi

end Libfive
