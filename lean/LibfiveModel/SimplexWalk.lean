/-
  The `load` calls the SIMPLEX (and hybrid) mesher receives from the recursive dual walk on a
  complete octree of depth `d` (2^d × 2^d × 2^d equal leaves), core Lean only.

  `Dual<3>::walk_` (include/libfive/render/brep/dual.hpp:251-305) first runs `Dual<3>::work(t)` for
  every branch (children first, `run`, l.376-380) — the calls `dualW d (0,0,0)` of
  LibfiveModel/DCGrid.lean, one per INTERIOR lattice edge — and then, for meshers with
  `needsTopEdges() == true` (simplex_mesher.hpp:58, hybrid_mesher.hpp:58), `handleTopEdges`
  (dual.hpp:206-229), modelled LITERALLY here:

      auto e = T::empty();
      for (i = 0 .. 3) { ts = {e, e, e, e}; ts[i] = t; edge3<X>(ts); edge3<Y>(ts); edge3<Z>(ts); }
      for (i = 0 .. 1) { ts = {e, e};       ts[i] = t; face3<X>(ts); face3<Y>(ts); face3<Z>(ts); }

  with the SAME `edge3` / `face3` as the interior walk (dual.hpp:127-165).  A tree is `some o`
  (the complete subtree whose lowest leaf is the cell `o`, depth given by the recursion index) or
  `none` = the `empty()` singleton (simplex_tree.inl:205-217: type UNKNOWN, no children, no leaf).
  `XTree::child(i)` of a non-branch is the tree itself (src/render/brep/xtree.inl:60-65), so
  `child` of `none` is `none` (`childO`).  `edge3` / `face3` recurse while ANY of the trees is a
  branch (dual.hpp:133-134, 148-149); in `handleTopEdges` one of the trees is always the root `t`,
  whose subtrees of depth `d + 1` are branches, so the recursion index of `edge3O` / `face3O` is the
  depth of the real trees (for the all-`none` arguments, which never occur, the real code would
  stop at once).  At depth 0 (`t` a leaf) `edge3` calls `load` directly and `face3` does nothing.

  `SimplexMesher::load<A>(ts)` (src/render/brep/simplex/simplex_mesher.cpp:329-338) visits the
  cells in the order 0, 1, 3, 2 and skips those with `leaf == nullptr` (the singleton):
  `callTets` — the same tets `edgeTets` of LibfiveModel/SimplexGrid.lean lists for the call.
-/
import LibfiveModel.SimplexGrid
import LibfiveModel.DCGrid

namespace Libfive.SimplexWalk
open Libfive.Marching Generated.MeshTables
open Libfive.DCGrid (axBit axQ axR childAt Call4 dualW)
open Libfive.SimplexGrid (Pt LTet frame cellOrder edgeCellTets shiftT dbl encTet vid)

/-- a tree handed to `edge3` / `face3`: `some o` = complete subtree with lowest leaf `o`,
    `none` = the `empty()` singleton -/
abbrev OT := Option Pt

/-- one call `load<A>(ts)`: axis and `ts[0..3]` -/
abbrev SCall := Nat × OT × OT × OT × OT

/-- `t->child(k)` for a tree of depth `d + 1`; the singleton is its own child -/
def childO (d : Nat) (t : OT) (k : Nat) : OT := t.map fun o => childAt d o k

/-- `edge3<A>(ts)` (dual.hpp:127-143) with possibly-empty trees -/
def edge3O (A : Nat) : Nat → OT → OT → OT → OT → List SCall
  | 0, t0, t1, t2, t3 => [(A, t0, t1, t2, t3)]
  | d + 1, t0, t1, t2, t3 =>
    let q := axBit (axQ A)
    let r := axBit (axR A)
    let a := axBit A
    edge3O A d (childO d t0 (q ||| r)) (childO d t1 r) (childO d t2 q) (childO d t3 0) ++
    edge3O A d (childO d t0 (q ||| r ||| a)) (childO d t1 (r ||| a)) (childO d t2 (q ||| a))
      (childO d t3 a)

/-- `face3<A>(ts)` (dual.hpp:145-165) with possibly-empty trees -/
def face3O (A : Nat) : Nat → OT → OT → List SCall
  | 0, _, _ => []
  | d + 1, t0, t1 =>
    let q := axBit (axQ A)
    let r := axBit (axR A)
    let a := axBit A
    ([0, q, r, q ||| r].flatMap fun k => face3O A d (childO d t0 (k ||| a)) (childO d t1 k)) ++
    edge3O (axQ A) d (childO d t0 a) (childO d t0 (r ||| a)) (childO d t1 0) (childO d t1 r) ++
    edge3O (axQ A) d (childO d t0 (q ||| a)) (childO d t0 (q ||| r ||| a)) (childO d t1 q)
      (childO d t1 (q ||| r)) ++
    edge3O (axR A) d (childO d t0 a) (childO d t1 0) (childO d t0 (a ||| q)) (childO d t1 q) ++
    edge3O (axR A) d (childO d t0 (r ||| a)) (childO d t1 r) (childO d t0 (r ||| a ||| q))
      (childO d t1 (r ||| q))

/-- `ts = {e, .., e}; ts[i] = t`: entry `j` -/
def slot (i : Nat) (t : OT) (j : Nat) : OT := if j = i then t else none

/-- `Dual<3>::handleTopEdges(t, m)` (dual.hpp:206-229) for a root of depth `d` -/
def topEdgesO (d : Nat) (t : OT) : List SCall :=
  ([0, 1, 2, 3].flatMap fun i => [0, 1, 2].flatMap fun A =>
      edge3O A d (slot i t 0) (slot i t 1) (slot i t 2) (slot i t 3)) ++
  ([0, 1].flatMap fun i => [0, 1, 2].flatMap fun A => face3O A d (slot i t 0) (slot i t 1))

/-- an interior call of `Dual<3>::work`: all four trees are real leaves -/
def liftCall (x : Call4) : SCall := (x.1, some x.2.1, some x.2.2.1, some x.2.2.2.1, some x.2.2.2.2)

/-- **all `load` calls the simplex / hybrid mesher receives** on the complete octree of depth `d`
    at the origin: the `work` calls (dual.hpp:376-380), then `handleTopEdges` (dual.hpp:292-298) -/
def walkCalls (d : Nat) : List SCall :=
  (dualW d (0, 0, 0)).map liftCall ++ topEdgesO d (some (0, 0, 0))

/-! ### the calls the per-edge loop `gridLByEdge` of LibfiveModel/SimplexGrid.lean is built from -/

/-- `ts[c]` for the lattice edge along `A` whose low end is the corner `frame A (a, q, r)` (cell
    units) of an `_ × nq × nr` (in `A, Q, R`) grid: the cell with `(A, Q, R)` index
    `(a, q - 1 + (c & 1), r - 1 + (c >> 1))`, or the singleton if that is outside the grid -/
def edgeSlot (nq nr A a q r c : Nat) : OT :=
  if 1 ≤ q + c % 2 ∧ q + c % 2 ≤ nq ∧ 1 ≤ r + c / 2 ∧ r + c / 2 ≤ nr then
    some (frame A (a, q + c % 2 - 1, r + c / 2 - 1))
  else none

def edgeCall (nq nr A a q r : Nat) : SCall :=
  (A, edgeSlot nq nr A a q r 0, edgeSlot nq nr A a q r 1, edgeSlot nq nr A a q r 2,
    edgeSlot nq nr A a q r 3)

/-- one call per lattice edge of the `n1 × n2 × n3` grid — interior AND boundary — in the loop
    order of `gridLByEdge` -/
def edgeCalls (n1 n2 n3 : Nat) : List SCall :=
  [0, 1, 2].flatMap fun A =>
    let n := frame ((3 - A) % 3) (n1, n2, n3)
    (List.range n.1).flatMap fun a => (List.range (n.2.1 + 1)).flatMap fun q =>
      (List.range (n.2.2 + 1)).map fun r => edgeCall n.2.1 n.2.2 A a q r

def slotOf (x : SCall) : Nat → OT
  | 0 => x.2.1
  | 1 => x.2.2.1
  | 2 => x.2.2.2.1
  | _ => x.2.2.2.2

/-- the tets `load<A>` marches in `ts[c] = t`: none for the singleton (`leaf == nullptr`,
    simplex_mesher.cpp:336-338) -/
def cellTetsO (cv tv : List (List Nat)) (A c : Nat) : OT → List LTet
  | some cell => (edgeCellTets cv tv A c).map (shiftT (dbl cell))
  | none => []

/-- the tets `SimplexMesher::load<A>(ts)` marches for one call: cells in the order 0, 1, 3, 2
    (simplex_mesher.cpp:329-332), lattice positions absolute -/
def callTets (cv tv : List (List Nat)) (x : SCall) : List LTet :=
  cellOrder.flatMap fun c => cellTetsO cv tv x.1 c (slotOf x c)

/-- the tets marched in the order of the recursive walk, over lattice points -/
def walkL (d : Nat) : List LTet :=
  (walkCalls d).flatMap (callTets simplexCellVertices simplexTetVertices)

/-- **the tets the simplex mesher marches, in the walk's own order**, over subspace-vertex ids -/
def walkTets (d : Nat) : List Tet := (walkL d).map (encTet (vid (2 ^ d) (2 ^ d)))

end Libfive.SimplexWalk
