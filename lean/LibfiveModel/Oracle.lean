/-
  Model of libfive's black-box oracles (C16):
    * the virtual `Oracle` interface (include/libfive/oracle/oracle.hpp) as a record of functions,
    * `TransformedOracle` exactly as src/oracle/transformed_oracle.cpp evaluates it,
    * expressions with oracle leaves, `remap` on them (`OracleClause::remap`,
      `TransformedOracleClause::remap`, `Tree::flatten`'s treatment of oracle nodes),
    * the context protocol: `Oracle::bind/unbind`, `Deck::bindOracles/unbindOracles`,
      `Tape::push` calling `oracle->push(type)` and storing one context per oracle per tape.
  Core Lean only, executable, polymorphic in the scalar.
-/
import LibfiveModel.Tape

namespace Libfive.OracleM

open Libfive

/-! ## data -/

structure V3 (α : Type) where
  x : α
  y : α
  z : α
deriving Repr, Inhabited, DecidableEq

/-- libfive `Interval`: bounds plus the maybe-NaN flag -/
structure Ivl (α : Type) where
  lo : α
  hi : α
  nan : Bool
deriving Repr, Inhabited

/-- `Feature`: a gradient with the epsilons that select it -/
structure Feat (α : Type) where
  deriv : V3 α
  eps : List (V3 α)
deriving Repr, Inhabited

/-- The virtual interface.  `set(p, i)`/`set(lower, upper)` followed by an `eval*` call is one
    function application here (the storage is `OracleStorage`'s and carries no other state).
    The same record also describes what an `Evaluator` offers for a plain expression, which is
    how `TransformedOracle` uses its three coordinate evaluators. -/
structure OracleI (α : Type) where
  point : V3 α → α                    -- evalPoint / evalArray, slot-wise
  interval : V3 α → V3 α → Ivl α      -- evalInterval on the box [lower, upper]
  grad : V3 α → V3 α                  -- evalDerivs / evalDerivArray, slot-wise
  feats : V3 α → List (Feat α)        -- evalFeatures

/-- `Jacobian * g` with `Jacobian << gx, gy, gz` (the gradients of X, Y, Z as *columns*) -/
def jmul {α : Type} [Add α] [Mul α] (gx gy gz g : V3 α) : V3 α :=
  ⟨gx.x * g.x + gy.x * g.y + gz.x * g.z,
   gx.y * g.x + gy.y * g.y + gz.y * g.z,
   gx.z * g.x + gy.z * g.y + gz.z * g.z⟩

/-- the operations of `Feature` the oracle uses, kept abstract: `check` (epsilon compatibility)
    and the merging constructor `Feature(d, a, b)` -/
structure FeatOps (α : Type) where
  check : Feat α → Feat α → Bool
  merge : V3 α → Feat α → Feat α → Feat α
  zero : V3 α

/-- `Feature(f, Jacobian)`: gradient and every epsilon are multiplied by the Jacobian -/
def Feat.transform {α : Type} [Add α] [Mul α] (f : Feat α) (gx gy gz : V3 α) : Feat α :=
  ⟨jmul gx gy gz f.deriv, f.eps.map (jmul gx gy gz)⟩

/-- the transformed point `(X(p), Y(p), Z(p))` -/
def tpoint {α : Type} (X Y Z : OracleI α) (p : V3 α) : V3 α :=
  ⟨X.point p, Y.point p, Z.point p⟩

/-- `TransformedOracle::evalFeatures`' quadruple loop -/
def transformedFeats {α : Type} [Add α] [Mul α] (F : FeatOps α)
    (xf yf zf uf : List (Feat α)) : List (Feat α) :=
  xf.flatMap fun f1 => yf.flatMap fun f2 =>
    if F.check f1 f2 then
      let f12 := F.merge F.zero f1 f2
      zf.flatMap fun f3 =>
        if F.check f3 f12 then
          let f123 := F.merge F.zero f12 f3
          uf.filterMap fun f4 =>
            let t := f4.transform f1.deriv f2.deriv f3.deriv
            if F.check t f123 then some (F.merge t.deriv t f123) else none
        else []
    else []

/-- `TransformedOracle(underlying, X, Y, Z)` with its three coordinate evaluators:
    * `evalPoint/evalArray`: evaluate X, Y, Z at the point, `underlying->set(...)`, forward;
    * `evalInterval`: evaluate the three coordinate ranges, pass the *bounds* of the ranges as the
      underlying oracle's box, forward; the result is flagged maybe-NaN when any coordinate range
      is (fix dde738c; before it the ranges' flags were dropped);
    * `evalDerivs/evalDerivArray`: `Jacobian * underlying gradient` at the transformed point;
    * `evalFeatures`: compatible triples of coordinate features × underlying features. -/
def transformed {α : Type} [Add α] [Mul α] (F : FeatOps α) (u X Y Z : OracleI α) : OracleI α where
  point p := u.point (tpoint X Y Z p)
  interval lo hi :=
    let xr := X.interval lo hi
    let yr := Y.interval lo hi
    let zr := Z.interval lo hi
    let r := u.interval ⟨xr.lo, yr.lo, zr.lo⟩ ⟨xr.hi, yr.hi, zr.hi⟩
    ⟨r.lo, r.hi, r.nan || xr.nan || yr.nan || zr.nan⟩
  grad p := jmul (X.grad p) (Y.grad p) (Z.grad p) (u.grad (tpoint X Y Z p))
  feats p := transformedFeats F (X.feats p) (Y.feats p) (Z.feats p) (u.feats (tpoint X Y Z p))

/-! ## expressions with oracle leaves -/

/-- Flattened expressions.  `oracle k` is a `TreeOracle` holding the user's clause number `k`;
    `toracle k X Y Z` is a `TreeOracle` holding `TransformedOracleClause(oracle k, X, Y, Z)`. -/
inductive Expr (α : Type)
  | x | y | z
  | const (c : α)
  | un (op : Op) (a : Expr α)
  | bin (op : Op) (a b : Expr α)
  | oracle (k : Nat)
  | toracle (k : Nat) (X Y Z : Expr α)
deriving Repr, Inhabited

/-- the kernels of the evaluators, abstract: point, interval, local partial derivatives
    (`∂out/∂a`, `∂out/∂b` as eval_deriv_array.cpp computes them from the operand values) -/
structure Kern (α : Type) where
  ev : Op → α → α → α
  iev : Op → Ivl α → Ivl α → Ivl α
  dev : Op → α → α → α × α
  zero : α
  one : α

def V3.add {α : Type} [Add α] (a b : V3 α) : V3 α := ⟨a.x + b.x, a.y + b.y, a.z + b.z⟩
def V3.smul {α : Type} [Mul α] (c : α) (a : V3 α) : V3 α := ⟨c * a.x, c * a.y, c * a.z⟩

section den
variable {α : Type} (K : Kern α) (Γ : Nat → OracleI α)

/-- point value of an expression (`ArrayEvaluator`); unary clauses read the dummy slot as `b` -/
def den : Expr α → V3 α → α
  | .x, p => p.x
  | .y, p => p.y
  | .z, p => p.z
  | .const c, _ => c
  | .un op a, p => K.ev op (den a p) K.zero
  | .bin op a b, p => K.ev op (den a p) (den b p)
  | .oracle k, p => (Γ k).point p
  | .toracle k X Y Z, p => (Γ k).point ⟨den X p, den Y p, den Z p⟩

/-- interval value (`IntervalEvaluator`); an oracle clause is `oracles[k]->evalInterval` -/
def ivl : Expr α → V3 α → V3 α → Ivl α
  | .x, lo, hi => ⟨lo.x, hi.x, false⟩
  | .y, lo, hi => ⟨lo.y, hi.y, false⟩
  | .z, lo, hi => ⟨lo.z, hi.z, false⟩
  | .const c, _, _ => ⟨c, c, false⟩
  | .un op a, lo, hi => K.iev op (ivl a lo hi) ⟨K.zero, K.zero, false⟩
  | .bin op a b, lo, hi => K.iev op (ivl a lo hi) (ivl b lo hi)
  | .oracle k, lo, hi => (Γ k).interval lo hi
  | .toracle k X Y Z, lo, hi =>
    let xr := ivl X lo hi
    let yr := ivl Y lo hi
    let zr := ivl Z lo hi
    let r := (Γ k).interval ⟨xr.lo, yr.lo, zr.lo⟩ ⟨xr.hi, yr.hi, zr.hi⟩
    ⟨r.lo, r.hi, r.nan || xr.nan || yr.nan || zr.nan⟩

/-- forward-mode gradient (`DerivArrayEvaluator`) -/
def gradE [Add α] [Mul α] : Expr α → V3 α → V3 α
  | .x, _ => ⟨K.one, K.zero, K.zero⟩
  | .y, _ => ⟨K.zero, K.one, K.zero⟩
  | .z, _ => ⟨K.zero, K.zero, K.one⟩
  | .const _, _ => ⟨K.zero, K.zero, K.zero⟩
  | .un op a, p => V3.smul (K.dev op (den K Γ a p) K.zero).1 (gradE a p)
  | .bin op a b, p =>
    V3.add (V3.smul (K.dev op (den K Γ a p) (den K Γ b p)).1 (gradE a p))
           (V3.smul (K.dev op (den K Γ a p) (den K Γ b p)).2 (gradE b p))
  | .oracle k, p => (Γ k).grad p
  | .toracle k X Y Z, p =>
    jmul (gradE X p) (gradE Y p) (gradE Z p) ((Γ k).grad ⟨den K Γ X p, den K Γ Y p, den K Γ Z p⟩)

/-- what an `Evaluator` built on `e` offers (features supplied by `fe`: the feature evaluator is
    C06's subject, here it is an arbitrary function) -/
def evalOf [Add α] [Mul α] (fe : Expr α → V3 α → List (Feat α)) (e : Expr α) : OracleI α where
  point := den K Γ e
  interval := ivl K Γ e
  grad := gradE K Γ e
  feats := fe e

end den

/-- An oracle that wraps an expression by delegating to the evaluators of that expression
    (the harness' `WrapOracle`). -/
def wrap {α : Type} [Add α] [Mul α] (K : Kern α) (Γ : Nat → OracleI α)
    (fe : Expr α → V3 α → List (Feat α)) (e : Expr α) : OracleI α := evalOf K Γ fe e

/-- `remap`: substitution of the axes, as `Tree::flatten` performs it.  On an oracle node it is
    `OracleClause::remap` (wrap in a `TransformedOracleClause`), on a transformed oracle
    `TransformedOracleClause::remap` (remap the three coordinate trees, keep the underlying). -/
def remap {α : Type} (X Y Z : Expr α) : Expr α → Expr α
  | .x => X
  | .y => Y
  | .z => Z
  | .const c => .const c
  | .un op a => .un op (remap X Y Z a)
  | .bin op a b => .bin op (remap X Y Z a) (remap X Y Z b)
  | .oracle k => .toracle k X Y Z
  | .toracle k A B C => .toracle k (remap X Y Z A) (remap X Y Z B) (remap X Y Z C)

/-- no oracle leaves -/
def Expr.plain {α : Type} : Expr α → Bool
  | .x | .y | .z | .const _ => true
  | .un _ a => a.plain
  | .bin _ a b => a.plain && b.plain
  | .oracle _ | .toracle _ _ _ _ => false

/-! ## the context protocol -/

/-- What `Oracle::push` returns.  `null` is `nullptr`; `user id` an opaque context of a user
    oracle; `trans u` a `TransformedOracle::Context` (its three tapes are irrelevant for the
    protocol) holding the underlying oracle's context `u`. -/
inductive Ctx
  | null
  | user (id : Nat)
  | trans (u : Ctx)
deriving DecidableEq, Repr, Inhabited

/-- `ctx ? ctx->u : nullptr` -/
def Ctx.under : Ctx → Ctx
  | .trans u => u
  | _ => .null

/-- Oracle objects with their `context` member: a user oracle, or a `TransformedOracle` owning
    its underlying oracle. -/
inductive Orc
  | user (bound : Ctx)
  | trans (bound : Ctx) (under : Orc)
deriving Repr, Inhabited

namespace Orc

def bound : Orc → Ctx
  | user b => b
  | trans b _ => b

/-- `Oracle::bind` -/
def bind : Orc → Ctx → Orc
  | user _, c => user c
  | trans _ u, c => trans c u

/-- `Oracle::unbind` -/
def unbind (o : Orc) : Orc := o.bind .null

/-- every level is unbound -/
def allUnbound : Orc → Bool
  | user b => b == .null
  | trans b u => b == .null && u.allUnbound

/-- every level strictly below the top is unbound -/
def lowerUnbound : Orc → Bool
  | user _ => true
  | trans _ u => u.allUnbound

/-- `evalPoint / evalArray / evalDerivs / evalDerivArray / evalFeatures`: a `TransformedOracle`
    binds `ctx->u` on its underlying oracle, forwards the query, unbinds.  Returns the state
    afterwards and the context the innermost (user) oracle was bound to while answering. -/
def queryB : Orc → Ctx → Orc × Ctx     -- the query on `o.bind c` (structural recursion)
  | user _, c => (user c, c)
  | trans _ u, c =>
    let r := queryB u c.under
    (trans c r.1.unbind, r.2)

def query (o : Orc) : Orc × Ctx := o.queryB o.bound

/-- `evalInterval`: `TransformedOracle::evalInterval` does *not* bind its underlying oracle. -/
def queryInterval : Orc → Orc × Ctx
  | user b => (user b, b)
  | trans b u =>
    let r := u.queryInterval
    (trans b r.1, r.2)

/-- `push(type)`.  A user oracle answers `ans c` when bound to `c`.  A `TransformedOracle`
    returns `nullptr` unless the type is INTERVAL; otherwise it binds `ctx->u` on the underlying
    oracle, pushes it, unbinds, and stores the answer in a fresh context.
    Returns (state, returned context, contexts the user oracle's `push` saw (empty if not called)). -/
def pushB (isInterval : Bool) (ans : Ctx → Ctx) : Orc → Ctx → Orc × Ctx × List Ctx
  | user _, c => (user c, ans c, [c])       -- the push on `o.bind c` (structural recursion)
  | trans _ u, c =>
    if isInterval then
      let r := pushB isInterval ans u c.under
      (trans c r.1.unbind, .trans r.2.1, r.2.2)
    else (trans c u, .null, [])

def push (isInterval : Bool) (ans : Ctx → Ctx) (o : Orc) : Orc × Ctx × List Ctx :=
  o.pushB isInterval ans o.bound

end Orc

/-- The `Deck`'s oracles and the contexts vectors of all tapes made so far (tape 0 = base). -/
structure DeckM where
  orcs : List Orc
  tapes : List (List Ctx)
deriving Repr, Inhabited

namespace DeckM

/-- `Deck::Deck`: unbound oracles, `tape->contexts.resize(oracles.size())` -/
def init (orcs : List Orc) : DeckM :=
  { orcs := orcs.map Orc.unbind, tapes := [orcs.map fun _ => Ctx.null] }

/-- contexts of tape `t` (a tape that does not exist reads as the base tape's all-null vector) -/
def tapeCtx (d : DeckM) (t : Nat) : List Ctx := d.tapes.getD t (d.orcs.map fun _ => Ctx.null)

/-- `Deck::bindOracles(tape)` -/
def bindOracles (d : DeckM) (cs : List Ctx) : DeckM :=
  { d with orcs := (List.range d.orcs.length).map fun i => (d.orcs.getD i default).bind (cs.getD i .null) }

/-- `Deck::unbindOracles()` -/
def unbindOracles (d : DeckM) : DeckM := { d with orcs := d.orcs.map Orc.unbind }

/-- the evaluators' clause loop over the ORACLE clauses `ks` (oracle indices in evaluation order) -/
def queryAll (isInterval : Bool) : List Orc → List Nat → List Orc × List (Nat × Ctx)
  | os, [] => (os, [])
  | os, k :: ks =>
    let r := if isInterval then (os.getD k default).queryInterval else (os.getD k default).query
    let rest := queryAll isInterval (os.set k r.1) ks
    (rest.1, (k, r.2) :: rest.2)

/-- `ArrayEvaluator::values / DerivArrayEvaluator::derivs / IntervalEvaluator::eval /
    FeatureEvaluator::features_`' inner part on tape `t`: bind, run the clauses, unbind.
    Returns the deck and, per oracle clause, the context its user oracle saw. -/
def eval (d : DeckM) (t : Nat) (ks : List Nat) (isInterval : Bool) : DeckM × List (Nat × Ctx) :=
  let d1 := d.bindOracles (d.tapeCtx t)
  let r := queryAll isInterval d1.orcs ks
  (({ d1 with orcs := r.1 } : DeckM).unbindOracles, r.2)

/-- the ORACLE branch of the first loop of `Tape::push`, for the active oracle clauses `ks`
    (storage order): `bind(prev); new_contexts[k] = push(type); unbind()` -/
def pushAll (isInterval : Bool) (ans : Nat → Ctx → Ctx) (prev : List Ctx) :
    List Orc → List Ctx → List Nat → List Orc × List Ctx × List (Nat × Ctx)
  | os, nc, [] => (os, nc, [])
  | os, nc, k :: ks =>
    let r := ((os.getD k default).bind (prev.getD k .null)).push isInterval (ans k)
    let rest := pushAll isInterval ans prev (os.set k r.1.unbind) (nc.set k r.2.1) ks
    (rest.1, rest.2.1, (r.2.2.map fun c => (k, c)) ++ rest.2.2)

/-- `Tape::push` on tape `t` as far as oracles are concerned: `new_contexts = contexts`, the
    loop above, and (when the tape changed) a new tape storing `new_contexts`.
    Returns the deck (new tape appended last), the new contexts, and what the user oracles saw. -/
def push (d : DeckM) (t : Nat) (ks : List Nat) (isInterval : Bool) (ans : Nat → Ctx → Ctx)
    (store : Bool) : DeckM × List Ctx × List (Nat × Ctx) :=
  let prev := d.tapeCtx t
  let r := pushAll isInterval ans prev d.orcs prev ks
  ({ orcs := r.1, tapes := if store then d.tapes ++ [r.2.1] else d.tapes }, r.2.1, r.2.2)

/-- the property the protocol must keep between library calls -/
def balanced (d : DeckM) : Bool :=
  d.orcs.all Orc.allUnbound && d.tapes.all fun cs => cs.length == d.orcs.length

end DeckM

/-- library calls on a deck, as sequences of the two primitives -/
inductive Call
  | eval (t : Nat) (ks : List Nat) (isInterval : Bool)
  | push (t : Nat) (ks : List Nat) (isInterval : Bool) (ans : Nat → Ctx → Ctx) (store : Bool)

def DeckM.call (d : DeckM) : Call → DeckM
  | .eval t ks iv => (d.eval t ks iv).1
  | .push t ks iv ans store => (d.push t ks iv ans store).1

def DeckM.run (d : DeckM) (cs : List Call) : DeckM := cs.foldl DeckM.call d

/-! ## oracle clauses on a tape, with contexts -/

/-- value an ORACLE clause produces: oracle `k` answers according to the context the tape binds -/
def orcWith {α : Type} (val : Nat → Ctx → α) (ctxs : List Ctx) : Nat → α :=
  fun k => val k (ctxs.getD k .null)

end Libfive.OracleM
