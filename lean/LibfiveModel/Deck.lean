/-
  Model of `Deck::Deck` (libfive/src/eval/deck.cpp): emission of the base tape from the list of
  distinct nodes `flat = root.walk()` of the optimised tree.

  The loop visits `flat` front to back with a counter `id` running DOWN from `flat.size()`:
  the node at position `i` gets slot `n - i`; constants, free variables and X/Y/Z only get a slot
  (their value is stored there by the evaluators), every other node pushes the clause
  `{op, id, clauses.at(lhs), clauses.at(rhs)}` (`0` for a missing operand), oracles push
  `{ORACLE, id, oracles.size(), 0}`.  `rev` is then written back to front into `tape->t`, so the
  tape is stored root-first and evaluated `rbegin..rend`.

  `clauses.at(m)` for a node already visited is `n - (its position)`; because `flat` holds each
  node once, that is `n - flat.idxOf m` (structural identity for pointer identity, as everywhere
  in this model).

  What is assumed of `walk()` is only its SPECIFICATION (`TopoFlat`): no node twice, operands before
  the nodes that use them, no remap/apply/invalid nodes (the tree was optimised, hence flattened).
  `postorder` is one list meeting it; the real traversal order is immaterial to the theorems.
  Core Lean only.
-/
import LibfiveModel.Tape
import LibfiveModel.Expr

namespace Libfive.Deck
open Libfive Expr

variable {C : Type}

def children : Expr C → List (Expr C)
  | un _ a => [a]
  | bin _ a b => [a, b]
  | _ => []

def isOracle : Expr C → Bool
  | oracle _ => true
  | _ => false

/-- nodes `Deck::Deck` can meet: no remap / apply / invalid -/
def plainNode : Expr C → Bool
  | remap _ _ _ _ => false
  | apply _ _ _ => false
  | invalid => false
  | _ => true

section
variable [DecidableEq C]

/-- `clauses.at(m->lhs().id())` once `m`'s operands have been visited -/
def idOf (flat : List (Expr C)) (e : Expr C) : Nat := flat.length - flat.idxOf e

/-- the clause pushed for the node at position `i` (none for constants, variables and axes) -/
def clauseAt (flat : List (Expr C)) (i : Nat) : Expr C → Option Clause
  | un op a => some ⟨op, flat.length - i, idOf flat a, 0⟩
  | bin op a b => some ⟨op, flat.length - i, idOf flat a, idOf flat b⟩
  | oracle _ => some ⟨Op.oracle, flat.length - i, ((flat.take i).filter isOracle).length, 0⟩
  | _ => none

/-- the tape after the first `k` nodes have been visited, root-first (`tape->t` order) -/
def tapeK (flat : List (Expr C)) : Nat → List Clause
  | 0 => []
  | k + 1 =>
    match clauseAt flat k (flat.getD k invalid) with
    | some c => c :: tapeK flat k
    | none => tapeK flat k

/-- `deck->tape`: all nodes visited; `tape->i = clauses.at(root)` -/
def build (flat : List (Expr C)) (root : Expr C) : TapeM :=
  { t := tapeK flat flat.length, root := idOf flat root }

/-- what `walk()` must deliver -/
def TopoFlat (flat : List (Expr C)) : Prop :=
  flat.Nodup ∧ (∀ e ∈ flat, plainNode e = true) ∧
  ∀ i, i < flat.length → ∀ c ∈ children (flat.getD i invalid), flat.idxOf c < i

/-- executable test of the specification (run by the correspondence driver on the node list
    recovered from every real deck) -/
def topoFlatB (flat : List (Expr C)) : Bool :=
  (List.range flat.length).all fun i =>
    let e := flat.getD i invalid
    plainNode e && flat.idxOf e == i && (children e).all fun c => decide (flat.idxOf c < i)

/-- one traversal meeting the specification: post-order with structural de-duplication -/
def postorderAux : Expr C → List (Expr C) → List (Expr C)
  | un op a, acc =>
    if un op a ∈ acc then acc else
      let acc1 := postorderAux a acc
      if un op a ∈ acc1 then acc1 else acc1 ++ [un op a]
  | bin op a b, acc =>
    if bin op a b ∈ acc then acc else
      let acc1 := postorderAux a acc
      let acc2 := postorderAux b acc1
      if bin op a b ∈ acc2 then acc2 else acc2 ++ [bin op a b]
  | e, acc => if e ∈ acc then acc else acc ++ [e]

def postorder (e : Expr C) : List (Expr C) := postorderAux e []

end

/-! ### what the evaluators put into the leaf slots and the oracle table -/

variable {α : Type}

/-- value stored in a slot before the tape runs: `v.row(id) = constant`, the variable's value,
    the point's coordinate; clause slots hold stale data (`I.bad` here, never read) -/
def leafVal (I : Interp C α) (e : Env α) : Expr C → α
  | const c => I.const c
  | x => e.x
  | y => e.y
  | z => e.z
  | var v => e.vars v
  | _ => I.bad

def slots0 (I : Interp C α) (e : Env α) (flat : List (Expr C)) : Nat → α :=
  fun s => leafVal I e (flat.getD (flat.length - s) invalid)

/-- `deck->oracles[j]` evaluated at the point: the `j`-th oracle node of `flat` -/
def orcTable (I : Interp C α) (e : Env α) (flat : List (Expr C)) : Nat → α :=
  fun j => match (flat.filter isOracle).getD j invalid with
    | oracle k => I.orc k e.x e.y e.z
    | _ => I.bad

end Libfive.Deck
