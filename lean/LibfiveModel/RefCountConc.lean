/-
  C14 — the reference count as a shared atomic: the C13 machine split into the atomic steps that
  threads interleave.  Core Lean only.

  Events are what the instrumented library reports (libfive/src/tree/tree.cpp, data.hpp hooks):
    alloc t n        thread t constructed node n (refcount = 0)
    add   t n old    `refcount++` by thread t observed `old`
    sub   t n old    `--refcount` by thread t observed `old` (i.e. returned `old - 1`)
    del   t n        thread t runs `delete` on node n
  A cell is `live rc`, `dying t` (thread t observed 1 → 0 and is the one that must delete) or `freed`.
  `cstep` accepts an event only if it is consistent with a sequentially consistent atomic counter
  and with the protocol of `Tree::~Tree` (delete only by the thread that observed the last
  decrement, nothing touches a node that is dying or freed).
-/
namespace Libfive.RCC

inductive Cell where
  | live (rc : Nat)
  | dying (tid : Nat)
  | freed
  deriving Repr, DecidableEq

inductive Ev where
  | alloc (t n : Nat)
  | add (t n old : Nat)
  | sub (t n old : Nat)
  | del (t n : Nat)
  deriving Repr, DecidableEq

def Ev.node : Ev → Nat
  | .alloc _ n => n
  | .add _ n _ => n
  | .sub _ n _ => n
  | .del _ n => n

def Ev.tid : Ev → Nat
  | .alloc t _ => t
  | .add t _ _ => t
  | .sub t _ _ => t
  | .del t _ => t

abbrev CState := Array Cell

def cstep (s : CState) : Ev → Option CState
  | .alloc _ n => if n = s.size then some (s.push (.live 0)) else none
  | .add _ n old =>
    match s[n]? with
    | some (.live rc) => if rc = old then some (s.setIfInBounds n (.live (rc + 1))) else none
    | _ => none
  | .sub t n old =>
    match s[n]? with
    | some (.live rc) =>
      if rc = old ∧ 1 ≤ rc then
        some (s.setIfInBounds n (if rc = 1 then .dying t else .live (rc - 1)))
      else none
    | _ => none
  | .del t n =>
    match s[n]? with
    | some (.dying t') => if t = t' then some (s.setIfInBounds n .freed) else none
    | _ => none

def crun : CState → List Ev → Option CState
  | s, [] => some s
  | s, e :: es =>
    match cstep s e with
    | some s' => crun s' es
    | none => none

/-- index of the first rejected event (for diagnostics), with the state before it -/
def firstReject : CState → List Ev → Nat → Option (Nat × Ev × Option Cell)
  | _, [], _ => none
  | s, e :: es, i =>
    match cstep s e with
    | some s' => firstReject s' es (i + 1)
    | none => some (i, e, s[e.node]?)

end Libfive.RCC
