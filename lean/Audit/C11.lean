import LibfiveTheorems.C11
#print axioms Libfive.C11.render_all_or_nothing
#print axioms Libfive.C11.render_uncancelled
#print axioms Libfive.C11.renderOld_counterexample
#print axioms Libfive.C11.renderOld_counterexample_index
#print axioms Libfive.C11.renderOld_not_all_or_nothing
#print axioms Libfive.C11.last_arriver
#print axioms Libfive.C11.no_lost_task
#print axioms Libfive.C11.worker_progress_partial
#print axioms Libfive.C11.collect_reports_zero
#print axioms Libfive.C11.cell_ownership
#print axioms Libfive.C11.worker_measure_decreases
#print axioms Libfive.C11.worker_steps_bounded
#print axioms Libfive.C11.worker_deadlock_free
#print axioms Libfive.C11.worker_progress
#print axioms Libfive.C11.worker_can_finish
