import LibfiveTheorems.C11
#print axioms Libfive.C11.render_all_or_nothing_counterexample
#print axioms Libfive.C11.render_all_or_nothing_false
#print axioms Libfive.C11.render_repaired
#print axioms Libfive.C11.render_uncancelled
#print axioms Libfive.C11.render_partial_mechanism
#print axioms Libfive.C11.last_arriver
#print axioms Libfive.C11.no_lost_task
#print axioms Libfive.C11.worker_progress_partial
#print axioms Libfive.C11.collect_reports_zero
#print axioms Libfive.C11.render_all_or_nothing_counterexample_index
