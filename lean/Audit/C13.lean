import LibfiveTheorems.C13
#print axioms Libfive.C13.rc_invariant
#print axioms Libfive.C13.no_dangling
#print axioms Libfive.C13.no_undefined_behaviour
#print axioms Libfive.C13.api_preserves_args
#print axioms Libfive.C13.leak_free
#print axioms Libfive.C13.destructor_iterative
#print axioms Libfive.C13.destructor_fuel_suffices
