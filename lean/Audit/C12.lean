import LibfiveTheorems.C12
#print axioms Libfive.C12.guarded_preserves
#print axioms Libfive.C12.balanced_history
#print axioms Libfive.C12.raw_leaks
#print axioms Libfive.C12.opSegs_guarded
#print axioms Libfive.C12.history_preserves
#print axioms Libfive.C12.all_rounding_calls_guarded
#print axioms Libfive.C12.current_tree_preserves
