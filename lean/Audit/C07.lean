import LibfiveTheorems.C07
#print axioms Libfive.C07.unary_sound
#print axioms Libfive.C07.binary_sound
#print axioms Libfive.C07.remap_is_composition
#print axioms Libfive.C07.apply_is_lexical_substitution
#print axioms Libfive.C07.flatten_sound
#print axioms Libfive.C07.optimize_sound
#print axioms Libfive.C07.optimized_sound
#print axioms Libfive.C07.eq_sound
#print axioms Libfive.C07.collapse_sound
#print axioms Libfive.C07.Iq_lawful
