import LibfiveTheorems.C19
#print axioms Libfive.C19.solveBounded_in_box
#print axioms Libfive.C19.qef_solveBounded_in_box
#print axioms Libfive.C19.unconstrained_kept
#print axioms Libfive.C19.qef_unconstrained_kept
#print axioms Libfive.C19.result_is_candidate
#print axioms Libfive.C19.subspaces_exist
#print axioms Libfive.C19.candidate_on_face
#print axioms Libfive.C19.constrained_on_face
#print axioms Libfive.C19.reported_error_is_qef
#print axioms Libfive.C19.error_sum_of_squares
#print axioms Libfive.C19.error_sum_of_squares_ofSamples
#print axioms Libfive.C19.error_nonneg
#print axioms Libfive.C19.accumulate_comm_assoc
#print axioms Libfive.C19.sub_accumulate
#print axioms Libfive.C19.shrink_inside
#print axioms Libfive.C19.reduced_system
#print axioms Libfive.C19.reduced_system_optimal
