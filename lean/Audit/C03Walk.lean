import LibfiveTheorems.C03Walk
#print axioms Libfive.C03.edge3_walk_calls
#print axioms Libfive.C03.face3_walk_calls
#print axioms Libfive.C03.work_walk_calls
#print axioms Libfive.C03.dual_walk_calls_at
#print axioms Libfive.C03.dual_walk_calls
#print axioms Libfive.C03.dual_walk_tris_perm
#print axioms Libfive.C03.grid_dc_closed_walk
