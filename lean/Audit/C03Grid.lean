import LibfiveTheorems.C03Grid
#print axioms Libfive.C03.grid_reference_cell
#print axioms Libfive.C03.grid_hypH
#print axioms Libfive.C03.grid_distinct
#print axioms Libfive.C03.grid_tetsets_distinct
#print axioms Libfive.C03.grid_vid_injective
#print axioms Libfive.C03.grid_marching_closed_manifold
#print axioms Libfive.C03.grid_marching_no_repeated_vertex
#print axioms Libfive.C03.grid_by_edge_perm
#print axioms Libfive.C03.grid_by_edge_hypH
#print axioms Libfive.C03.grid_by_edge_distinct
#print axioms Libfive.C03.grid_by_edge_tetsets_distinct
#print axioms Libfive.C03.grid_by_edge_marching_closed_manifold
