import LibfiveTheorems.C10
#print axioms Libfive.C10.collect_partition
#print axioms Libfive.C10.collect_closed_onesided
#print axioms Libfive.C10.collect_closed
#print axioms Libfive.C10.weld_fuel_irrelevant
#print axioms Libfive.C10.marching2_partition
#print axioms Libfive.C10.marching2_edge_index
#print axioms Libfive.C10.contour_winding_rule
#print axioms Libfive.C10.side_emit_independent
#print axioms Libfive.C10.patch_vertex_in_out
