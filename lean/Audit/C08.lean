import LibfiveTheorems.C08
#print axioms Libfive.C08.opcodes_pinned
#print axioms Libfive.C08.enum_is_table
#print axioms Libfive.C08.numbering_injective
#print axioms Libfive.C08.code_injective
#print axioms Libfive.C08.codes_below_reserved
#print axioms Libfive.C08.code_ne_end_of_item
#print axioms Libfive.C08.args_pinned
#print axioms Libfive.C08.commutative_pinned
#print axioms Libfive.C08.idempotent_pinned
#print axioms Libfive.C08.args_layout
#print axioms Libfive.C08.string_roundtrip
#print axioms Libfive.C08.word_roundtrip
#print axioms Libfive.C08.tree_roundtrip
#print axioms Libfive.C08.shapeOK_of_check
#print axioms Libfive.C08.archive_roundtrip_partial
#print axioms Libfive.C08.archive_roundtrip_fails_with_named_variable
#print axioms Libfive.C08.roundtrip_same_denotation
