import LibfiveTheorems.C05
#print axioms Libfive.C05.push_sound
#print axioms Libfive.C05.push_wf
#print axioms Libfive.C05.push_shorter
#print axioms Libfive.C05.nested_push_sound
#print axioms Libfive.C05.push_sound_on
#print axioms Libfive.C05.pointKeep_sound
#print axioms Libfive.C05.getBase_sound
#print axioms Libfive.C05.intervalKeep_sound
#print axioms Libfive.C05.interval_push_sound
