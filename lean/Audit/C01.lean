import LibfiveTheorems.C01
#print axioms Libfive.C01.tape_denotes
#print axioms Libfive.C01.batch_slotwise
#print axioms Libfive.C01.batch_independent_of_other_slots
#print axioms Libfive.C01.constant_fold_sound
#print axioms Libfive.C01.deck_tape_correct
#print axioms Libfive.C01.deck_wf
#print axioms Libfive.C01.deck_eval_correct
#print axioms Libfive.C01.walk_spec_satisfiable
#print axioms Libfive.C01.walk_spec_test_sound
