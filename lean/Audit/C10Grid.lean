import LibfiveTheorems.C10Grid
#print axioms Libfive.C10.boundaryOutside_uniform
#print axioms Libfive.C10.grid_degree_one
#print axioms Libfive.C10.grid_contours_closed
#print axioms Libfive.C10.dual_walk_calls
#print axioms Libfive.C10.walk_degree_one
#print axioms Libfive.C10.walk_contours_closed
