import LibfiveTheorems.C20
#print axioms Libfive.C20.total_formula
#print axioms Libfive.C20.total_closed_form
#print axioms Libfive.C20.ticks_eq_total
#print axioms Libfive.C20.ticks_eq_total_sum
#print axioms Libfive.C20.walk_ticks
#print axioms Libfive.C20.walk_pending
#print axioms Libfive.C20.reset_ticks
#print axioms Libfive.C20.reset_ticks_defect
#print axioms Libfive.C20.reset_ticks_old_iff
#print axioms Libfive.C20.progress_monotone
#print axioms Libfive.C20.finish_idempotent
#print axioms Libfive.C20.runner_exits_after_signal
#print axioms Libfive.C20.second_finish_unlocks_foreign
