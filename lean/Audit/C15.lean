import LibfiveTheorems.C15
#print axioms Libfive.C15.values_frame
#print axioms Libfive.C15.derivs_frame
#print axioms Libfive.C15.interval_frame
#print axioms Libfive.C15.gradient_frame
#print axioms Libfive.C15.updateVars_effect
#print axioms Libfive.C15.pushedTape_frame
#print axioms Libfive.C15.features_frame
#print axioms Libfive.C15.isInside_frame
#print axioms Libfive.C15.history_independent
#print axioms Libfive.C15.core_preserved
