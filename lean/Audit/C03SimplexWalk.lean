import LibfiveTheorems.C03SimplexWalk
#print axioms Libfive.C03.grid_by_edge_calls
#print axioms Libfive.C03.edge3_real_trees
#print axioms Libfive.C03.face3_real_trees
#print axioms Libfive.C03.top_edges_translate
#print axioms Libfive.C03.top_edges_calls
#print axioms Libfive.C03.simplex_walk_calls
#print axioms Libfive.C03.simplex_walk_tets_by_edge
#print axioms Libfive.C03.simplex_walk_tets
#print axioms Libfive.C03.simplex_walk_tris
#print axioms Libfive.C03.grid_walk_hypH
#print axioms Libfive.C03.grid_walk_distinct
#print axioms Libfive.C03.grid_walk_tetsets_distinct
#print axioms Libfive.C03.grid_marching_closed_manifold_walk
#print axioms Libfive.C03.grid_marching_closed_manifold_walk'
#print axioms Libfive.C03.grid_walk_no_repeated_vertex
