import LibfiveTheorems.C06Closed
#print axioms Libfive.C06.hasOracle_flatten
#print axioms Libfive.C06.hasOracle_optimize
#print axioms Libfive.C06.postorder_no_oracle
#print axioms Libfive.C06.oracleUnremapped_of_no_oracle
#print axioms Libfive.C06.walk_spec_gradient_closed
#print axioms Libfive.C06.deck_gradient_curve_closed_plain
#print axioms Libfive.C06.deck_gradient_correct_closed_plain
#print axioms Libfive.C06.deck_gradient_var_closed_plain
#print axioms Libfive.C06.walk_spec_gradient_closedI
#print axioms Libfive.C06.deck_node_gradientI
#print axioms Libfive.C06.deck_gradient_correctI
#print axioms Libfive.C06.deck_gradient_varI
#print axioms Libfive.C06.deck_gradient_curve_closed
#print axioms Libfive.C06.deck_gradient_correct_closed
#print axioms Libfive.C06.deck_gradient_var_closed
