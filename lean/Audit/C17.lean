import LibfiveTheorems.C17
#print axioms Libfive.C17.residual_is_value
#print axioms Libfive.C17.mask_untouched
#print axioms Libfive.C17.outer_bounded
#print axioms Libfive.C17.outer_bounded_pos
#print axioms Libfive.C17.absent_untouched_partial
#print axioms Libfive.C17.inner_terminates_partial
#print axioms Libfive.C17.loop_state_consistent
#print axioms Libfive.C17.inner_diverges
#print axioms Libfive.C17.inner_diverges_nonfinite
#print axioms Libfive.C17.findRoot_not_total
#print axioms Libfive.C17.inner_not_total
#print axioms Libfive.C17.zero_step_hang
#print axioms Libfive.C17.absent_touched_nonfinite
#print axioms Libfive.C17.gas_zero_iterates
#print axioms Libfive.Solver.FVal.laws
#print axioms Libfive.C17.fixed_inner_terminates
