import LibfiveTheorems.C16
#print axioms Libfive.C16.transformed_value
#print axioms Libfive.C16.oracle_tree_value
#print axioms Libfive.C16.remap_chain
#print axioms Libfive.C16.transformed_interval_sound
#print axioms Libfive.C16.oracle_tree_interval_sound
#print axioms Libfive.C16.transformed_interval_eq_plain
#print axioms Libfive.C16.transformed_gradient
#print axioms Libfive.C16.oracle_tree_gradient
#print axioms Libfive.C16.transformed_features
#print axioms Libfive.C16.context_balanced
#print axioms Libfive.C16.context_forwarding
#print axioms Libfive.C16.push_preserves_oracle_value
#print axioms Libfive.C16.transformed_push_value
#print axioms Libfive.C16.transformed_interval_sound_flagged
#print axioms Libfive.C16.transformed_interval_old_unsound
