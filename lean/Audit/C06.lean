import LibfiveTheorems.C06
#print axioms Libfive.C06.kernel_hasDerivAt
#print axioms Libfive.C06.tape_gradient
#print axioms Libfive.C06.spatial_gradient
#print axioms Libfive.C06.jacobian_packing_bijection
#print axioms Libfive.C06.jacobian_seed_unit
#print axioms Libfive.C06.evalBarrier_self
#print axioms Libfive.C06.jacobian_gradient
#print axioms Libfive.C06.constVar_kernel
#print axioms Libfive.C06.feature_is_branch_gradient
#print axioms Libfive.C06.used_lanes_computed
#print axioms Libfive.C06.features_subset
#print axioms Libfive.C06.isInside_sign
#print axioms Libfive.derivRowS_get
#print axioms Libfive.derivRowA_get
