import LibfiveTheorems.C01Closed
#print axioms Libfive.C01.flatten_plain
#print axioms Libfive.C01.flatten_plain_needs_noInvalid
#print axioms Libfive.C01.flatten_plain_needs_oracleUnremapped
#print axioms Libfive.C01.flatten_plain_needs_wellArity
#print axioms Libfive.C01.optimize_wellArity
#print axioms Libfive.C01.optimize_plain
#print axioms Libfive.C01.optimize_plain_needs_wellArity
#print axioms Libfive.C01.nodeArity_of_wellArity
#print axioms Libfive.C01.walk_spec_closed
#print axioms Libfive.C01.deck_eval_correct_closed
#print axioms Libfive.C01.deck_eval_correct_closed_plain
#print axioms Libfive.C01.deck_eval_bad_arity
#print axioms Libfive.C01.deck_wf_closed
#print axioms Libfive.C01.deck_eval_remapped_oracle
#print axioms Libfive.C01.IqO_lawful
#print axioms Libfive.C01.deck_eval_closed_fails_on_remapped_oracle
#print axioms Libfive.C01.exT_ok
