import LibfiveTheorems.C02
#print axioms Libfive.C02.op_enclosure
#print axioms Libfive.C02.op_enclosure_weak
#print axioms Libfive.C02.tape_enclosure_partial
#print axioms Libfive.C02.tape_enclosure
#print axioms Libfive.C02.safeTape_of_soundOps
#print axioms Libfive.C02.state_sound
#print axioms Libfive.C02.leaf_enclosure
#print axioms Libfive.C02.const_enclosure
#print axioms Libfive.C02.sub_unsound_old
#print axioms Libfive.C02.nthRoot_unsound_old
#print axioms Libfive.C02.sin_cos_tan_unsound_old
#print axioms Libfive.C02.mod_flag_unsound_old
#print axioms Libfive.C02.compare_unsound_old
#print axioms Libfive.C02.recip_unsound_old
#print axioms Libfive.C02.wholeOps_sound
#print axioms Libfive.C02.wholeOps_atan2
#print axioms Libfive.C02.wholeOps_mod
