import LibfiveTheorems.C08Expr
#print axioms Libfive.C08.toExpr_wellformed
#print axioms Libfive.C08.toExpr_enough_fuel
#print axioms Libfive.C08.toExpr_enough_fuel_ids
#print axioms Libfive.C08.toExpr_enough_fuel_stored
#print axioms Libfive.C08.evalAt_eq_denote
#print axioms Libfive.C08.roundtrip_same_denotation_denote
#print axioms Libfive.C08.archive_roundtrip_denote
#print axioms Libfive.C08.archive_roundtrip_flat_denote
#print axioms Libfive.C08.archive_roundtrip_flat_denote_source_partial
#print axioms Libfive.C08.exChildrenSmaller
#print axioms Libfive.C08.exShapesOK
#print axioms Libfive.C08.exSer
