import LibfiveTheorems.C20Pool
#print axioms Libfive.C20.pool_ticks_accounting
#print axioms Libfive.C20.pool_ticks_complete
#print axioms Libfive.C20.pool_ticks_monotone_bounded
#print axioms Libfive.C20.pool_fraction_bounded
