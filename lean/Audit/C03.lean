import LibfiveTheorems.C03
#print axioms Libfive.C03.tet_tables_equal
#print axioms Libfive.C03.tet_inside_first
#print axioms Libfive.C03.tet_face_local
#print axioms Libfive.C03.seg_reverse
#print axioms Libfive.C03.seg_rotate
#print axioms Libfive.C03.seg_at_most_one
#print axioms Libfive.C03.tets_per_cell_orientation
#print axioms Libfive.C03.marching_table_partition
#print axioms Libfive.C03.marching_closed
#print axioms Libfive.C03.marching_closed_balanced
#print axioms Libfive.C03.tet_boundary_is_face_segments
#print axioms Libfive.C03.marching_no_repeated_vertex
#print axioms Libfive.C03.hypHRef_sound
#print axioms Libfive.C03.dc_quad_boundary
#print axioms Libfive.C03.quadCycle_flip
#print axioms Libfive.C03.marching_manifold_per_tet
#print axioms Libfive.C03.collect_children_once
