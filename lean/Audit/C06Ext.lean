import LibfiveTheorems.C06Ext
#print axioms Libfive.C06.real_interp_is_evR
#print axioms Libfive.C06.real_interp_lawful
#print axioms Libfive.C06.deck_node_gradient
#print axioms Libfive.C06.optimized_denote_eq
#print axioms Libfive.C06.deck_gradient_curve
#print axioms Libfive.C06.deck_gradient_correct
#print axioms Libfive.C06.deck_axes
#print axioms Libfive.C06.deck_gradient_correct_postorder
#print axioms Libfive.C06.deck_gradient_var
#print axioms Libfive.C06.ex_dom
