import LibfiveTheorems.C08Fold
#print axioms Libfive.C08.load_unary_preserves_meaning
#print axioms Libfive.C08.load_binary_preserves_meaning
#print axioms Libfive.C08.load_unary_preserves_denote
#print axioms Libfive.C08.load_binary_preserves_denote
#print axioms Libfive.C08.foldSound_of_lawful
#print axioms Libfive.C08.clause_loop_roundtrip_denote
#print axioms Libfive.C08.archive_roundtrip_fold_denote
#print axioms Libfive.C08.gf2_enc
#print axioms Libfive.C08.gf2_foldSound
#print axioms Libfive.C08.foldHeap_sane
#print axioms Libfive.C08.foldShapesOK
#print axioms Libfive.C08.foldLoad
