import LibfiveTheorems.C03DC
#print axioms Libfive.C03.dc_face_cancel
#print axioms Libfive.C03.dc_face_cancel_weights
#print axioms Libfive.C03.dc_patch_index_lt_four
#print axioms Libfive.C03.dc_call_face_terms
#print axioms Libfive.C03.grid_dc_closed
#print axioms Libfive.C03.grid_dc_boundary_zero
#print axioms Libfive.C03.grid_dc_only_grid_points
#print axioms Libfive.C03.grid_dc_vid_injective
#print axioms Libfive.C03.grid_dc_vertices_exist
#print axioms Libfive.C03.dc_not_edge_manifold
#print axioms Libfive.C03.dual_walk_calls_partial
