import LibfiveTheorems.C09Ext
#print axioms Libfive.C09.tape_oracle_sound
#print axioms Libfive.C09.tape_istate_sound
#print axioms Libfive.C09.heightmap_of_tape_eq_bruteforce
#print axioms Libfive.C09.heightmap_of_tape_fresh
#print axioms Libfive.C09.pushed_tape_agrees
#print axioms Libfive.C09.pushed_tape_wf
#print axioms Libfive.C09.heightmap_pushed_tape_eq_bruteforce
#print axioms Libfive.C09.heightmap_of_tape_eq_bruteforce_on
#print axioms Libfive.C09.push_unobservable
