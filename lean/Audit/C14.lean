import LibfiveTheorems.C14
#print axioms Libfive.C14.interleaving_confluent_partial
#print axioms Libfive.C14.final_count
#print axioms Libfive.C14.unique_deleter
#print axioms Libfive.C14.deleter_is_observer
#print axioms Libfive.C14.no_use_after_free_conc
#print axioms Libfive.C14.statics_all_classified
#print axioms Libfive.C14.interleaving_confluent
#print axioms Libfive.C14.interleaving_confluent_heap
#print axioms Libfive.C14.interleaving_confluent_seq
#print axioms Libfive.C14.no_use_after_free_prog
#print axioms Libfive.C14.fault_free_prog
#print axioms Libfive.C14.quiescent_heap
#print axioms Libfive.C14.init_wellformed
#print axioms Libfive.C14.prog_refines_acceptor
#print axioms Libfive.C14.prog_unique_deleter
