import LibfiveTheorems.C09
#print axioms Libfive.C09.split_partitions
#print axioms Libfive.C09.split_axis_largest
#print axioms Libfive.C09.split_enumerates
#print axioms Libfive.C09.voxels_cover_partial
#print axioms Libfive.C09.recurse_eq_bruteforce
#print axioms Libfive.C09.recurse_local
#print axioms Libfive.C09.regions_partition
#print axioms Libfive.C09.render_eq_bruteforce
#print axioms Libfive.C09.render_workers_independent
#print axioms Libfive.C09.render_fresh
