import LibfiveTheorems.C04
#print axioms Libfive.C04.tet_triangle_outward
#print axioms Libfive.C04.refTet_positive
#print axioms Libfive.C04.search_constants
#print axioms Libfive.C04.search_bracket
#print axioms Libfive.C04.search_finds_zero
#print axioms Libfive.C04.search_bracket_libfive
#print axioms Libfive.C04.vertex_in_region
#print axioms Libfive.C04.winding_partial
