import LibfiveTheorems.C04Metric
#print axioms Libfive.C04.simplex_vertex_near_levelset_sharp
#print axioms Libfive.C04.simplex_vertex_near_levelset
#print axioms Libfive.C04.simplex_vertex_sdf_cell
#print axioms Libfive.C04.simplex_vertex_sdf_cube
#print axioms Libfive.C04.simplex_vertex_in_box
#print axioms Libfive.C04.hybrid_vertex_eq_simplex
