import LibfiveTheorems.C17B32
#print axioms Libfive.C17.b32_halving_laws
#print axioms Libfive.C17.b32_bound_le
#print axioms Libfive.C17.b32_not_laws
#print axioms Libfive.C17.b32_laws_partial
#print axioms Libfive.C17.b32_subMul_zero_exact
#print axioms Libfive.C17.b32_subMul_zero_step_exact
#print axioms Libfive.C17.inner_terminates_b32
#print axioms Libfive.C17.inner_terminates_b32_279
#print axioms Libfive.C17.findRoot_never_hangs_b32
#print axioms Libfive.C17.findRoot_terminates_b32
#print axioms Libfive.C17.absent_untouched_b32
#print axioms Libfive.C17.absent_untouched_b32_exact
#print axioms Libfive.C17.absent_negZero_flips
#print axioms Libfive.C17.b32_half_is_div_two
#print axioms Libfive.C17.b32_ops_round_once
#print axioms Libfive.C17.b32_round_representable
