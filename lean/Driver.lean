import Driver.Parse
import Driver.C05
