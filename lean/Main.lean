import Driver.Parse
import Driver.C05

def main (args : List String) : IO UInt32 := do
  let stdin ← IO.getStdin
  let lines ← Driver.readLines stdin #[]
  match args with
  | ["c05"] =>
    for l in Driver.C05.run lines do IO.println l
    return 0
  | _ =>
    IO.eprintln s!"unknown engine {args}"
    return 2
