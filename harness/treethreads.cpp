// C14 harness: trees shared across threads.
//
//   treethreads stress <seed> <nthreads> <nops> ctl|free <out>
//       builds a DAG with shared sub-expressions, then N workers copy / move / assign / destroy /
//       print / optimise / build evaluators over it.  `ctl`: the refcount hook is a cooperative
//       scheduler (one thread runs between two hook points, the next one is chosen by the seeded
//       RNG), so the event log is the real total order and is replayed by Driver/C14.lean through
//       the atomic-step model.  `free`: real parallelism (used under TSan), no event log.
//       Every worker's results are printed and compared with a sequential re-run of the same
//       per-thread programs.
//   treethreads cold <kind> <nthreads>
//       "cold start": N threads whose FIRST libfive action is operation <kind>, on thread-private
//       data prepared by main, released together by a relaxed spin flag (no accidental
//       happens-before between the workers).  Meant for the TSan flavour.
#include <atomic>
#include <condition_variable>
#include <fstream>
#include <mutex>
#include <random>
#include <thread>
#include <unordered_map>

#include "common.hpp"
#include "libfive/verif.hpp"

using namespace libfive;

namespace {

// ------------------------------------------------------------------ event log + scheduler
struct Event { int tid; int kind; long node; long old; };
std::vector<Event> elog;
std::unordered_map<const void*, long> epoch_id;      // pointer -> id of its current allocation
long next_node = 0;
thread_local int my_tid = 0;                          // 0 = main

bool controlled = false;
std::mutex sm;
std::condition_variable scv[32];      // one per thread id: no thundering herd
int turn = 0;
std::vector<char> finished;
std::mt19937 srng;
int nworkers = 0;

void pass_turn_locked(int me) {
    std::vector<int> c;
    for (int i = 1; i <= nworkers; ++i) if (!finished[i]) c.push_back(i);
    if (c.empty()) { turn = 0; }
    else {
        // stay on the same thread with probability 1/2 (long runs and fine interleavings both occur)
        if (me >= 1 && !finished[me] && (srng() & 1)) turn = me;
        else turn = c[srng() % c.size()];
    }
    scv[turn].notify_one();
}

void hook(int site, int64_t a, int64_t b, const void* p) {
    if (site != verif::SITE_TREE_STEP) return;
    if (!controlled) return;
    // Only one thread runs at a time in controlled mode, so the log needs no lock of its own.
    long id;
    if (a == 3) { id = next_node++; epoch_id[p] = id; }
    else {
        auto it = epoch_id.find(p);
        id = it == epoch_id.end() ? -1 : it->second;
        if (a == 4) epoch_id.erase(p);
    }
    elog.push_back({my_tid, (int)a, id, (long)b});
    if (my_tid != 0) {
        std::unique_lock<std::mutex> lk(sm);
        pass_turn_locked(my_tid);
        scv[my_tid].wait(lk, [] { return turn == my_tid; });
    }
}

// ------------------------------------------------------------------ worker programs
struct Shared { std::vector<Tree> roots; };

std::string fmt(float f) { return vh::hex(f); }

// One worker: private handle pool over the shared roots.  Deterministic given (seed, tid).
void work(const Shared& sh, int tid, unsigned seed, int nops, std::vector<std::string>& res) {
    std::mt19937 rng(seed * 7919u + tid);
    std::vector<Tree> pool;
    auto pick = [&]() -> const Tree& {
        if (!pool.empty() && (rng() % 3)) return pool[rng() % pool.size()];
        return sh.roots[rng() % sh.roots.size()];
    };
    for (int i = 0; i < nops; ++i) {
        switch (rng() % 10) {
            case 0: case 1: pool.push_back(pick()); break;                          // copy
            case 2: if (!pool.empty()) { Tree src = pick(); Tree t(std::move(pool.back()));      // move-construct,
                                         pool.back() = std::move(src);                            // move-assign into the
                                         pool.push_back(std::move(t)); } break;                   // moved-from handle
            case 3: if (!pool.empty()) pool[rng() % pool.size()] = pick(); break;   // copy-assign
            case 4: if (pool.size() > 1) { size_t a = rng() % pool.size(), b = rng() % pool.size();
                                           if (a != b) pool[a] = std::move(pool[b]); } break;
            case 5: if (!pool.empty()) { pool.erase(pool.begin() + rng() % pool.size()); } break;   // destroy
            case 6: { std::stringstream ss; ss << pick(); res.push_back("print " + ss.str()); break; }
            case 7: { Tree o = pick().optimized();
                      ArrayEvaluator e(o);
                      res.push_back("opt " + fmt(e.value({0.3f, -0.2f, 0.6f})));
                      // (optimised trees are not kept: optimized() orders commutative operands by pointer, so
                      //  anything printed from them would differ between two runs for no semantic reason)
                      { Tree keep(o.get()); Tree k2 = keep; (void)k2; }
                      break; }
            case 8: { ArrayEvaluator e(pick());
                      res.push_back("eval " + fmt(e.value({0.3f, -0.2f, 0.6f}))); break; }
            case 9: { // new expressions over shared sub-expressions (fresh parents of shared nodes)
                      Tree t = min(pick(), pick() + Tree(0.5f));
                      res.push_back("size " + std::to_string(t.size()));
                      pool.push_back(t); break; }
        }
    }
    // every private handle dies here, in the worker
}

Shared buildShared(unsigned seed) {
    std::mt19937 rng(seed);
    Shared sh;
    std::vector<Tree> sub = {Tree::X(), Tree::Y(), Tree::Z(), Tree(1.5f), Tree::var()};
    int remaps = 0;
    for (int i = 0; i < 12; ++i) {
        const Tree& a = sub[rng() % sub.size()];
        const Tree& b = sub[rng() % sub.size()];
        unsigned k = rng() % 6;
        // at most two remap nodes, never nested (flattening nested remaps is exponential)
        if (k == 5 && (remaps >= 2 || (a->flags & TreeData::TREE_FLAG_HAS_REMAP)
                                   || (b->flags & TreeData::TREE_FLAG_HAS_REMAP))) k = 0;
        if (k == 5) remaps++;
        switch (k) {
            case 0: sub.push_back(a + b); break;
            case 1: sub.push_back(a * b); break;
            case 2: sub.push_back(min(a, b)); break;
            case 3: sub.push_back(max(a, -b)); break;
            case 4: sub.push_back(sqrt(abs(a)) - b); break;
            case 5: sub.push_back(a.remap(b, Tree::X(), a)); break;
        }
    }
    for (int i = 0; i < 4; ++i) sh.roots.push_back(sub[sub.size() - 1 - i]);
    sh.roots.push_back(min(sh.roots[0], sh.roots[1]));
    // create the lazily initialised statics (one(), invalid()) before the live-node baseline is taken
    (void)((Tree::X() + Tree(1.0f)) * Tree(2.0f) + Tree::Y()).optimized();
    (void)Tree::invalid();
    // The shared-DAG family starts WARM: the lazily filled opcode-name tables (a listed race, see the
    // cold-start family) are initialised here by the main thread so that this family is deterministic.
    { std::stringstream ss; ss << sh.roots[0]; (void)Opcode::fromScmString("add"); }
    return sh;
}

int stress(int argc, char** argv) {
    unsigned seed = atoi(argv[2]);
    nworkers = atoi(argv[3]);
    int nops = atoi(argv[4]);
    controlled = std::string(argv[5]) == "ctl";
    std::ofstream out(argv[6]);
    srng.seed(seed * 31337u + 7);
    finished.assign(nworkers + 1, 0);
    verif::point_fn.store(hook);
    vh::forceRoundNearest();

    std::vector<std::vector<std::string>> res(nworkers + 1), ref(nworkers + 1);
    {
        Shared sh = buildShared(seed);
        const int64_t live0 = verif::live_nodes.load();
        std::vector<std::thread> th;
        turn = 0;
        for (int t = 1; t <= nworkers; ++t) {
            th.emplace_back([&, t]() {
                my_tid = t;
                if (controlled) { std::unique_lock<std::mutex> lk(sm); scv[t].wait(lk, [&] { return turn == t; }); }
                work(sh, t, seed, nops, res[t]);
                if (controlled) { std::unique_lock<std::mutex> lk(sm); finished[t] = 1; pass_turn_locked(t); }
            });
        }
        if (controlled) { std::unique_lock<std::mutex> lk(sm); pass_turn_locked(0); }
        for (auto& t : th) t.join();
        out << "live-after-workers " << verif::live_nodes.load() << " before " << live0 << "\n";
        // sequential reference run of the same per-thread programs (thread 0, no scheduling)
        // (still logged in controlled mode: thread 0 never yields, so these are plain sequential events)
        for (int t = 1; t <= nworkers; ++t) work(sh, t, seed, nops, ref[t]);
    }
    for (auto& e : elog) out << "ev " << e.tid << " " << e.kind << " " << e.node << " " << e.old << "\n";
    for (int t = 1; t <= nworkers; ++t) {
        out << "thread " << t << " results " << res[t].size() << " ref " << ref[t].size() << "\n";
        for (size_t i = 0; i < res[t].size() && i < ref[t].size(); ++i) {
            out << "res " << t << " " << i << " " << res[t][i] << "\n";
            out << "ref " << t << " " << i << " " << ref[t][i] << "\n";
        }
    }
    out << "live-end " << verif::live_nodes.load() << "\n";
    out << "done\n";
    return 0;
}

// ------------------------------------------------------------------ cold start
std::atomic<int> go{0};
std::atomic<int> ready{0};

int cold(int argc, char** argv) {
    std::string kind = argv[2];
    int n = atoi(argv[3]);
    // Thread-private data prepared by main for the kinds that need a tree.  NB: for the opcode and
    // singleton kinds main performs NO libfive call at all before the workers are released.
    std::vector<Tree> priv;
    const bool needs_tree = (kind == "tree-print" || kind == "optimized" || kind == "deck" || kind == "serialize");
    if (needs_tree) {
        for (int i = 0; i < n; ++i) {
            // constants and free variables only: no X/Y/Z singletons shared between the workers
            Tree v = Tree::var();
            priv.push_back((v + Tree(1.0f + i)) * Tree(2.0f) - max(v, Tree(0.25f)));
        }
    }
    std::vector<std::string> res(n);
    std::vector<std::thread> th;
    for (int t = 0; t < n; ++t) {
        th.emplace_back([&, t]() {
            ready.fetch_add(1, std::memory_order_relaxed);
            while (!go.load(std::memory_order_relaxed)) { }
            if (kind == "opcode-toString") res[t] = Opcode::toString(Opcode::OP_ADD);
            else if (kind == "opcode-toScmString") res[t] = Opcode::toScmString(Opcode::OP_NTH_ROOT);
            else if (kind == "opcode-fromScmString") res[t] = std::to_string((int)Opcode::fromScmString("nth-root"));
            else if (kind == "capi-opcode-enum") res[t] = std::to_string(libfive_opcode_enum("sub"));
            else if (kind == "tree-print") { std::stringstream ss; ss << priv[t]; res[t] = ss.str(); }
            else if (kind == "optimized") { res[t] = std::to_string(priv[t].optimized().size()); }
            else if (kind == "deck") { ArrayEvaluator e(priv[t]); res[t] = vh::hex(e.value({0.1f, 0.2f, 0.3f})); }
            else if (kind == "serialize") { std::stringstream ss; priv[t].serialize(ss); res[t] = std::to_string(ss.str().size()); }
            else if (kind == "singletons") { res[t] = std::to_string((Tree::X() + Tree::Y() * Tree::Z()).size() + Tree::invalid().is_valid()); }
            else if (kind == "constfold") { res[t] = vh::hex(Tree::unary(Opcode::OP_SIN, Tree(1.0f + t))->value()); }
            else if (kind == "build-optimize") { Tree v = Tree::var(); res[t] = std::to_string(((v + Tree(1.0f)) * Tree(3.0f) + v).optimized().size()); }
        });
    }
    while (ready.load(std::memory_order_relaxed) < n) { }
    go.store(1, std::memory_order_relaxed);
    for (auto& t : th) t.join();
    for (int t = 0; t < n; ++t) printf("cold %s %d %s\n", kind.c_str(), t, res[t].c_str());
    printf("done\n");
    return 0;
}

}  // namespace

int main(int argc, char** argv) {
    if (argc >= 7 && std::string(argv[1]) == "stress") return stress(argc, argv);
    if (argc >= 4 && std::string(argv[1]) == "cold") return cold(argc, argv);
    fprintf(stderr, "usage: treethreads stress <seed> <nthreads> <nops> ctl|free <out> | cold <kind> <nthreads>\n");
    return 2;
}
