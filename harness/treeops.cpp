// C13 correspondence harness: runs a program of Tree value-type operations and C-API calls over a
// slot pool on the real library and prints, after every operation, verif::live_nodes, the refcount
// of every live slot's node and (while the registry is small) of every live node.  The Lean driver
// (Driver/C13.lean) replays the same operations through the model and must predict these numbers.
//
//   treeops <program-file> <output-file>
//
// The harness is dumb on purpose: it executes, observes and prints.  All judging is in Lean/Python.
#include <fstream>
#include <optional>
#include <unordered_map>
#include <unordered_set>
#include <set>

#include "common.hpp"
#include "libfive/tree/archive.hpp"
#include "libfive/verif.hpp"

using namespace libfive;

namespace {

struct TreeAccess : public Tree {
    static Tree getOne() { return Tree::one(); }
};

struct SlotObj {
    int kind = 0;                 // 0 dead, 1 Tree, 2 raw libfive_tree
    std::optional<Tree> t;
    libfive_tree raw = nullptr;
};

std::vector<SlotObj> slots;
std::vector<std::optional<libfive_evaluator>> evals;

// ---- registry of live nodes, in the model's numbering
std::unordered_map<const TreeData*, long> id_of;
// allocated during the current op and still alive, with their allocation sequence number.  A node's
// children exist before it is constructed, so allocation order is a children-first order.
std::unordered_map<const TreeData*, long> fresh;
long alloc_seq = 0;
long next_id = 5;
long events = 0;

void hook(int site, int64_t a, int64_t, const void* p) {
    if (site != verif::SITE_TREE_STEP) return;
    ++events;
    auto d = static_cast<const TreeData*>(p);
    if (a == 3) {
        fresh[d] = alloc_seq++;
    } else if (a == 4) {
        if (!fresh.erase(d)) id_of.erase(d);
    }
}

std::vector<const TreeData*> kidsOf(const TreeData* t) {
    std::vector<const TreeData*> k;
    if (auto d = std::get_if<TreeUnaryOp>(t)) {
        k = {d->lhs.get()};
    } else if (auto d = std::get_if<TreeBinaryOp>(t)) {
        k = {d->lhs.get(), d->rhs.get()};
    } else if (auto d = std::get_if<TreeRemap>(t)) {
        k = {d->x.get(), d->y.get(), d->z.get(), d->t.get()};
    } else if (auto d = std::get_if<TreeApply>(t)) {
        k = {d->target.get(), d->value.get(), d->t.get()};
    }
    return k;
}

std::string refOf(const TreeData* p, const std::unordered_map<const TreeData*, long>& newidx) {
    if (!p) return "null";
    auto n = newidx.find(p);
    if (n != newidx.end()) return "n" + std::to_string(n->second);
    auto o = id_of.find(p);
    if (o != id_of.end()) return "o" + std::to_string(o->second);
    return "unknown";
}

// Numbers the nodes that were allocated during this op and are still alive, in allocation order, and
// prints them as the `built` line: built <n> {<kind> <nkids> <ref>*} root <ref>
// (terse: only the count, for macro ops that the driver expands by itself)
void emitBuilt(std::ostream& out, const TreeData* root, bool terse) {
    std::vector<std::pair<long, const TreeData*>> order;
    for (auto& kv : fresh) order.push_back({kv.second, kv.first});
    std::sort(order.begin(), order.end());
    std::unordered_map<const TreeData*, long> newidx;
    for (size_t i = 0; i < order.size(); ++i) newidx[order[i].second] = (long)i;
    if (terse) {
        out << "mbuilt " << order.size() << " root " << refOf(root, newidx) << "\n";
    } else {
        out << "built " << order.size();
        for (auto& o : order) {
            auto ks = kidsOf(o.second);
            out << " " << o.second->index() << " " << ks.size();
            for (auto k : ks) out << " " << refOf(k, newidx);
        }
        out << " root " << refOf(root, newidx) << "\n";
    }
    for (auto& o : order) id_of[o.second] = next_id++;
    fresh.clear();
}

void emitObs(std::ostream& out) {
    out << "obs " << verif::live_nodes.load() << " slots";
    for (size_t i = 5; i < slots.size(); ++i) {
        const TreeData* p = nullptr;
        if (slots[i].kind == 1) p = slots[i].t->get();
        else if (slots[i].kind == 2) p = slots[i].raw;
        if (slots[i].kind == 0) continue;
        out << " " << i << ":" << (slots[i].kind == 1 ? "t" : "r") << ":";
        if (!p) { out << "null"; continue; }
        auto it = id_of.find(p);
        out << (it == id_of.end() ? -1 : it->second) << ":" << p->refcount.load();
    }
    if (id_of.size() <= 400) {
        std::vector<std::pair<long, uint32_t>> v;
        for (auto& kv : id_of) v.push_back({kv.second, kv.first->refcount.load()});
        std::sort(v.begin(), v.end());
        out << " all";
        for (auto& kv : v) out << " " << kv.first << ":" << kv.second;
    }
    out << "\n";
}

const TreeData* ptrOf(int s) {
    if (slots[s].kind == 1) return slots[s].t->get();
    if (slots[s].kind == 2) return slots[s].raw;
    return nullptr;
}
const Tree& treeOf(int s) { return *slots[s].t; }

void setTree(int d, Tree&& t) { slots[d].t.emplace(std::move(t)); slots[d].kind = 1; }
void setRaw(int d, libfive_tree r) { slots[d].raw = r; slots[d].kind = 2; }
void kill(int d) { slots[d].t.reset(); slots[d].raw = nullptr; slots[d].kind = 0; }

const libfive_region3 R3 = {{-1, 1}, {-1, 1}, {-1, 1}};

}  // namespace

int main(int argc, char** argv) {
    if (argc < 3) { fprintf(stderr, "usage: treeops <program> <out>\n"); return 2; }
    std::ifstream in(argv[1]);
    std::ofstream out(argv[2]);
    const std::string tmpfile = std::string(argv[2]) + ".tree";
    vh::forceRoundNearest();

    // Force creation of the five function-local statics before the baseline is taken
    const TreeData* statics[5];
    {
        statics[0] = Tree::X().get();
        statics[1] = Tree::Y().get();
        statics[2] = Tree::Z().get();
        statics[3] = Tree::invalid().get();
        statics[4] = TreeAccess::getOne().get();
    }
    verif::point_fn.store(hook);
    const int64_t baseline = verif::live_nodes.load();
    out << "baseline " << baseline << "\n";

    std::string line;
    long seqno = -1;
    while (std::getline(in, line)) {
        auto w = vh::split(line);
        if (w.empty() || w[0][0] == '#') continue;
        const std::string& op = w[0];
        auto I = [&](size_t i) { return atoi(w.at(i).c_str()); };
        // C-API opcode argument: protocol name, or a raw integer written as "#<int>"
        auto OPC = [&](size_t i) -> int {
            const std::string& t = w.at(i);
            return t[0] == '#' ? atoi(t.c_str() + 1) : (int)vh::opOf(t);
        };

        if (op == "seq") {
            // new sequence: all slots dead, registry = statics
            seqno = I(1);
            size_t n = I(2);
            for (auto& e : evals) if (e) { libfive_evaluator_delete(*e); }
            evals.clear();
            slots.clear();
            slots.resize(n);
            // slots 0..4 stand for the library's own function-local statics (borrowed, not owned)
            for (int i = 0; i < 5; ++i) { slots[i].kind = 2; slots[i].raw = statics[i]; }
            id_of.clear();
            fresh.clear();
            for (int i = 0; i < 5; ++i) id_of[statics[i]] = i;
            next_id = 5;
            out << "seq " << seqno << " " << n << " live " << verif::live_nodes.load() << "\n";
            continue;
        }
        if (op == "endseq") {
            // the oracle line: after the program deleted every handle, live_nodes must be back
            for (auto& e : evals) if (e) { libfive_evaluator_delete(*e); e.reset(); }
            size_t alive = 0;
            for (size_t i = 5; i < slots.size(); ++i) alive += slots[i].kind != 0;
            out << "endseq " << seqno << " live " << verif::live_nodes.load() << " baseline " << baseline
                << " open-slots " << alive << " registry " << id_of.size() << " events " << events << "\n";
            continue;
        }

        out << "op " << line << std::endl;     // flushed: the last line names the op that crashed
        fresh.clear();
        bool built = false;          // op produces a result in slot d
        bool isnull = false;
        const TreeData* root = nullptr;
        int d = w.size() > 1 ? I(1) : -1;
        try {
            // ------------------------------------------------ value type
            if (op == "vconst") { setTree(d, Tree(vh::unhex(w[2]))); built = true; }
            else if (op == "vvar") { setTree(d, Tree::var()); built = true; }
            else if (op == "vxyz") { int k = I(2); setTree(d, k == 0 ? Tree::X() : k == 1 ? Tree::Y() : Tree::Z()); built = true; }
            else if (op == "vinvalid") { setTree(d, Tree::invalid()); built = true; }
            else if (op == "vcopy") {
                if (slots[I(2)].kind == 1) slots[d].t.emplace(treeOf(I(2)));
                else slots[d].t.emplace(Tree(slots[I(2)].raw));     // explicit Tree(const Data*)
                slots[d].kind = 1;
            }
            else if (op == "vmove") { slots[d].t.emplace(std::move(*slots[I(2)].t)); slots[d].kind = 1; }
            else if (op == "vcassign") { *slots[d].t = treeOf(I(2)); }
            else if (op == "vmassign") { *slots[d].t = std::move(*slots[I(2)].t); }
            else if (op == "vdestroy") { kill(d); }
            else if (op == "vrelease") { auto r = slots[I(2)].t->release(); setRaw(d, r); }
            else if (op == "vreclaim") { auto r = slots[I(2)].raw; kill(I(2)); setTree(d, Tree::reclaim(r)); }
            else if (op == "vunary") { setTree(d, Tree::unary(vh::opOf(w[2]), treeOf(I(3)))); built = true; }
            else if (op == "vbinary") { setTree(d, Tree::binary(vh::opOf(w[2]), treeOf(I(3)), treeOf(I(4)))); built = true; }
            else if (op == "vremap") { setTree(d, treeOf(I(2)).remap(treeOf(I(3)), treeOf(I(4)), treeOf(I(5)))); built = true; }
            else if (op == "vapply") { setTree(d, treeOf(I(2)).apply(treeOf(I(3)), treeOf(I(4)))); built = true; }
            else if (op == "vopt") { setTree(d, treeOf(I(2)).optimized()); built = true; }
            else if (op == "vflat") { setTree(d, treeOf(I(2)).flatten()); built = true; }
            else if (op == "vcvars") { setTree(d, treeOf(I(2)).with_const_vars()); built = true; }
            else if (op == "vdeser") {
                std::stringstream ss;
                if (ptrOf(I(2))->flags & TreeData::TREE_FLAG_HAS_REMAP) {
                    out << "skip serialize-remap\n";      // separate scenario (known use-after-free)
                    setTree(d, Tree(treeOf(I(2)))); built = true;
                } else {
                    treeOf(I(2)).serialize(ss);
                    setTree(d, Tree::deserialize(ss)); built = true;
                }
            }
            else if (op == "vprint") { std::stringstream ss; ss << treeOf(d); out << "str " << ss.str().size() << "\n"; }
            else if (op == "vsize") { out << "size " << treeOf(d).size() << "\n"; }
            else if (op == "veq") { out << "eq " << treeOf(d).eq(treeOf(I(2))) << "\n"; }
            else if (op == "vser") {
                if (ptrOf(d)->flags & TreeData::TREE_FLAG_HAS_REMAP) out << "skip serialize-remap\n";
                else { std::stringstream ss; treeOf(d).serialize(ss); out << "bytes " << ss.str().size() << "\n"; }
            }
            else if (op == "vserforce") {   // no remap guard: the known-finding scenario
                std::stringstream ss; treeOf(d).serialize(ss); out << "bytes " << ss.str().size() << "\n";
            }
            else if (op == "vwalk") {
                if (ptrOf(d)->flags & TreeData::TREE_FLAG_HAS_REMAP) out << "skip walk-remap\n";
                else out << "walk " << treeOf(d).walk().size() << "\n";
            }
            else if (op == "veval") {
                ArrayEvaluator e(treeOf(d));
                IntervalEvaluator ie(treeOf(d));
                DerivArrayEvaluator de(treeOf(d));
                out << "val " << vh::hex(e.value({0.25f, -0.5f, 0.75f})) << "\n";
                (void)ie.eval({-1, -1, -1}, {1, 1, 1});
                (void)de.deriv({0.25f, -0.5f, 0.75f});
            }
            // ------------------------------------------------ C API (arguments: any live slot)
            else if (op == "cxyz") { int k = I(2); setRaw(d, k == 0 ? libfive_tree_x() : k == 1 ? libfive_tree_y() : libfive_tree_z()); built = true; }
            else if (op == "cconst") { setRaw(d, libfive_tree_const(vh::unhex(w[2]))); built = true; }
            else if (op == "cvar") { setRaw(d, libfive_tree_var()); built = true; }
            else if (op == "cnullary") { setRaw(d, libfive_tree_nullary(OPC(2))); built = true; }
            else if (op == "cunary") { setRaw(d, libfive_tree_unary(OPC(2), ptrOf(I(3)))); built = true; }
            else if (op == "cbinary") { setRaw(d, libfive_tree_binary(OPC(2), ptrOf(I(3)), ptrOf(I(4)))); built = true; }
            else if (op == "cremap") { setRaw(d, libfive_tree_remap(ptrOf(I(2)), ptrOf(I(3)), ptrOf(I(4)), ptrOf(I(5)))); built = true; }
            else if (op == "copt") { setRaw(d, libfive_tree_optimized(ptrOf(I(2)))); built = true; }
            else if (op == "cdelete") { auto r = slots[d].raw; kill(d); libfive_tree_delete(r); }
            else if (op == "cprint") { char* s = libfive_tree_print(ptrOf(d)); out << "str " << strlen(s) << "\n"; libfive_free_str(s); }
            else if (op == "cevalf") { out << "val " << vh::hex(libfive_tree_eval_f(ptrOf(d), {0.25f, -0.5f, 0.75f})) << "\n"; }
            else if (op == "cevalr") { auto i = libfive_tree_eval_r(ptrOf(d), R3); out << "ival " << vh::hex(i.lower) << " " << vh::hex(i.upper) << "\n"; }
            else if (op == "cevald") { auto v = libfive_tree_eval_d(ptrOf(d), {0.25f, -0.5f, 0.75f}); out << "grad " << vh::hex(v.x) << "\n"; }
            else if (op == "cinfo") {
                bool ok = false;
                float c = libfive_tree_get_const(ptrOf(d), &ok);
                out << "info " << libfive_tree_is_var(ptrOf(d)) << " " << ok << " " << vh::hex(c) << " "
                    << (libfive_tree_id(ptrOf(d)) == ptrOf(d)) << "\n";
            }
            else if (op == "csaveload") {
                // d = load(save(src))
                if (ptrOf(I(2))->flags & TreeData::TREE_FLAG_HAS_REMAP) {
                    out << "skip serialize-remap\n";
                    setRaw(d, Tree(ptrOf(I(2))).release()); built = true;   // stand-in: a second handle
                } else {
                    bool ok = libfive_tree_save(ptrOf(I(2)), tmpfile.c_str());
                    out << "saved " << ok << "\n";
                    setRaw(d, libfive_tree_load(tmpfile.c_str())); built = true;
                }
            }
            else if (op == "cevnew") {
                // evaluator e from tree a (evaluators may outlive their trees)
                size_t e = I(1);
                if (evals.size() <= e) evals.resize(e + 1);
                libfive_vars vars = {nullptr, nullptr, 0};
                evals[e] = libfive_tree_evaluator(ptrOf(I(2)), vars);
            }
            else if (op == "cevuse") {
                auto& e = **evals[I(1)];
                out << "val " << vh::hex(e.value({0.25f, -0.5f, 0.75f})) << "\n";
            }
            else if (op == "cevdel") { libfive_evaluator_delete(*evals[I(1)]); evals[I(1)].reset(); }
            // ------------------------------------------------ macros (expanded identically by the driver)
            else if (op == "mchainun") {         // d = op^n(s)
                Tree t = treeOf(I(2));
                auto o = vh::opOf(w[3]);
                long n = atol(w[4].c_str());
                for (long i = 0; i < n; ++i) t = Tree::unary(o, t);
                setTree(d, std::move(t));
            }
            else if (op == "mchainbin") {        // d = (((s op l) op l) ... op l)
                Tree t = treeOf(I(2));
                auto o = vh::opOf(w[4]);
                long n = atol(w[5].c_str());
                for (long i = 0; i < n; ++i) t = Tree::binary(o, t, treeOf(I(3)));
                setTree(d, std::move(t));
            }
            else if (op == "mchainself") {       // t = t op t, n times (2^n paths, n nodes)
                Tree t = treeOf(I(2));
                auto o = vh::opOf(w[3]);
                long n = atol(w[4].c_str());
                for (long i = 0; i < n; ++i) t = Tree::binary(o, t, t);
                setTree(d, std::move(t));
            }
            else if (op == "mfan") {             // t = t op2 (op1 l), n times: l gets n parents
                Tree t = treeOf(I(2));
                auto o1 = vh::opOf(w[4]);
                auto o2 = vh::opOf(w[5]);
                long n = atol(w[6].c_str());
                for (long i = 0; i < n; ++i) { Tree u = Tree::unary(o1, treeOf(I(3))); t = Tree::binary(o2, t, u); }
                setTree(d, std::move(t));
            }
            else if (op == "machild") {          // machild d k : t = t->lhs() (k=0) / t->rhs() (k=1): copy-assignment
                Tree& t = *slots[d].t;           // from a Tree stored INSIDE the node the handle may be the last owner of
                int k = atoi(w[2].c_str());
                t = (k == 0) ? t->lhs() : t->rhs();
            }
            else if (op == "mchainremap") {      // mchainremap d s l pos n : chain through slot pos (0=t 1=x 2=y 3=z)
                Tree t = treeOf(I(2));           // s must contain x/y/z (so must l when pos != 0)
                const Tree& l = treeOf(I(3));
                int pos = atoi(w[4].c_str());
                long n = atol(w[5].c_str());
                for (long i = 0; i < n; ++i) {
                    if (pos == 0) t = t.remap(l, l, l);
                    else if (pos == 1) t = l.remap(t, l, l);
                    else if (pos == 2) t = l.remap(l, t, l);
                    else t = l.remap(l, l, t);
                }
                setTree(d, std::move(t));
            }
            else if (op == "mchainapply") {      // mchainapply d s v l pos n : chain through slot pos (0=t 1=value)
                Tree t = treeOf(I(2));
                const Tree& v = treeOf(I(3));
                const Tree& l = treeOf(I(4));
                int pos = atoi(w[5].c_str());
                long n = atol(w[6].c_str());
                for (long i = 0; i < n; ++i) {
                    if (pos == 0) t = t.apply(v, l);
                    else t = l.apply(v, t);
                }
                setTree(d, std::move(t));
            }
            else { out << "unknown-op\n"; }

            if (built) {
                root = ptrOf(d);
                isnull = (root == nullptr);
                if (isnull) { out << "nullres\n"; fresh.clear(); }
                else emitBuilt(out, root, false);
            } else if (op[0] == 'm') {
                // macro: number the new nodes in creation order = address-independent chain order.
                // The driver allocates them in the same order (children first along the chain).
                emitBuilt(out, ptrOf(d), true);
            }
        } catch (const std::exception& e) {
            out << "exc " << typeid(e).name() << "\n";
            fresh.clear();
        }
        emitObs(out);
    }
    for (auto& e : evals) if (e) libfive_evaluator_delete(*e);
    out << "done " << verif::live_nodes.load() << "\n";
    out.close();
    return 0;
}
