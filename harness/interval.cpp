// C02 harness: the real IntervalEvaluator against the real ArrayEvaluator.
// Reads a program file (argv[1]) and prints what the library did; it aggregates but does not judge
// (the only filter is the exact test "value is NaN / outside the reported bounds while the result is
// not flagged", which selects the points that are printed in full; slack and classification are
// applied by tools/checks/c02.py, the flag / case-selection model is run by lean/Driver/C02.lean).
//
// program lines
//   vals <n> <hex>*             sorted landmark / random endpoint values (-0 before +0)
//   sub  <n> <idx>*             indices (into vals) used for the maybe-NaN flag variants
//   exps <n> <int>*             exponents for pow / nth-root
//   grid1 <op>                  every interval [v_i, v_j] (i<=j), flag off; flag on for the `sub` intervals
//   grid2 <op>                  every pair of intervals, flags 00; flags 10/01/11 on the `sub` intervals
//   gridk <op>                  every interval x every exponent (constant second operand)
//   case1 <op> <lo> <hi> <mn>                       single cases (witness replays, corpus)
//   case2 <op> <lo> <hi> <mn> <lo> <hi> <mn>
//   casek <op> <lo> <hi> <mn> <k>
//   n <id> ... / root <id> / box <lo3> <hi3> <g> [extra points: x y z]*   whole expressions (stream 3)
// output lines
//   r <kind> <op> <Alo> <Ahi> <Amn> <Blo> <Bhi> <Bmn> res <lo> <hi> <flag> aux <k> <hex>* pts <n>
//   esc <why> <op> <Alo> <Ahi> <Amn> <Blo> <Bhi> <Bmn> res <lo> <hi> <flag> at <a> <b> val <r>
//         (why = nan | lo | hi; follows the r / x line it belongs to)
//   x <case> root <lo> <hi> <flag> pts <n> nan <count> min <v> max <v> rnd <fegetround ok>
#include <fstream>
#include <algorithm>
#include <functional>
#include <set>
#include "common.hpp"
using namespace vh;

struct TreePeek : public Tree {
    static Tree noopt(const Tree& t) { return (t.*(&TreePeek::with_flags))(TREE_FLAG_IS_OPTIMIZED); }
};

struct IvPeek : public Interval {
    using I = Interval::I;
};
typedef IvPeek::I BI;

struct IvEval : public IntervalEvaluator {
    IvEval(std::shared_ptr<Deck> d) : BaseEvaluator(d, std::map<Tree::Id, float>()), IntervalEvaluator(d) {}
    // like IntervalEvaluator::eval, but the leaf intervals may carry a maybe-NaN flag
    Interval run(const Interval& X, const Interval& Y, const Interval& Z) {
        i[deck->X] = X; i[deck->Y] = Y; i[deck->Z] = Z;
        auto& tape = deck->tape;
        for (auto itr = tape->rbegin(); itr != tape->rend(); ++itr)
            (*this)(itr->op, itr->id, itr->a, itr->b);
        return i[tape->root()];
    }
    const Interval& slot(size_t k) const { return i[k]; }
};

static std::vector<float> vals;
static std::vector<int> subIdx;
static std::vector<int> exps;
static const float QNAN = std::numeric_limits<float>::quiet_NaN();

static bool sameBits(float a, float b) { return f2b(a) == f2b(b); }

// sample points of [lo, hi]: both endpoints themselves (also when infinite), interior landmark values
// (at most `cap`, spread evenly, the zeros always), the midpoint when finite; NaN when flagged.
static std::vector<float> samplePts(float lo, float hi, bool mn, size_t cap = 5) {
    std::vector<float> p;
    p.push_back(lo);
    if (!sameBits(lo, hi)) p.push_back(hi);
    std::vector<float> in;
    for (float v : vals) if (v > lo && v < hi) in.push_back(v);
    // +-0 strictly inside in the bit sense (e.g. lo = -0, hi = 1 -> +0 is an interior point)
    for (float z : {-0.0f, 0.0f})
        if (lo <= z && z <= hi && !sameBits(z, lo) && !sameBits(z, hi) &&
            std::none_of(in.begin(), in.end(), [&](float v) { return sameBits(v, z); }))
            in.push_back(z);
    if (in.size() <= cap) {
        for (float v : in) p.push_back(v);
    } else {
        for (size_t k = 0; k < cap; ++k) p.push_back(in[k * (in.size() - 1) / (cap - 1)]);
        for (float v : in) if (v == 0.0f) p.push_back(v);
    }
    if (std::isfinite(lo) && std::isfinite(hi) && lo < hi) {
        float m = lo * 0.5f + hi * 0.5f;
        if (m > lo && m < hi) p.push_back(m);
    }
    if (mn) p.push_back(QNAN);
    return p;
}

struct OpRig {
    Opcode::Opcode op;
    std::shared_ptr<Deck> deck;
    std::unique_ptr<IvEval> iv;
    std::unique_ptr<ArrayEvaluator> arr;
    bool valid = false;
    bool swapped = false;   // clause operand a is Y (only possible if something reorders operands)
    int nargs = 2;
    float kconst = 0;
    bool isConstB = false;

    OpRig(Opcode::Opcode op_, bool constB = false, float k = 0) : op(op_), kconst(k), isConstB(constB) {
        nargs = Opcode::args(op);
        Tree t = (nargs == 1) ? Tree::unary(op, Tree::X())
               : constB ? Tree::binary(op, Tree::X(), Tree(k))
                        : Tree::binary(op, Tree::X(), Tree::Y());
        deck = std::make_shared<Deck>(TreePeek::noopt(t));
        // exactly one clause with this opcode, reading the X (and Y / constant) slots
        if (deck->tape->size() != 1) return;
        auto c = *deck->tape->rbegin();
        if (c.op != op) return;
        if (nargs == 2 && !constB) {
            if (c.a == deck->X && c.b == deck->Y) swapped = false;
            else if (c.a == deck->Y && c.b == deck->X) swapped = true;
            else return;
        } else if (c.a != deck->X) return;
        iv.reset(new IvEval(deck));
        arr.reset(new ArrayEvaluator(deck));
        valid = true;
    }
};

static const char* stateName(const Interval& I) {
    switch (I.state()) {
        case Interval::EMPTY: return "E";
        case Interval::FILLED: return "F";
        case Interval::AMBIGUOUS: return "A";
        default: return "U";
    }
}

static void printIv(std::ostream& o, const Interval& I) {
    o << " " << hex(I.lower()) << " " << hex(I.upper()) << " " << (I.isSafe() ? 0 : 1);
}

// raw results of the primitives that the libfive-authored case splits combine
static std::vector<std::string> auxFor(Opcode::Opcode op, const Interval& A, const Interval& B) {
    std::vector<std::string> aux;
    float alo = A.lower(), ahi = A.upper(), blo = B.lower(), bhi = B.upper();
    if (op == Opcode::OP_ATAN2) {
        // y = A, x = B; the four corner values through the same global ::atan2 the library calls
        aux.push_back(hex(::atan2(alo, blo))); aux.push_back(hex(::atan2(alo, bhi)));
        aux.push_back(hex(::atan2(ahi, blo))); aux.push_back(hex(::atan2(ahi, bhi)));
        aux.push_back(hex(-float(M_PI))); aux.push_back(hex(float(M_PI)));
    } else if (op == Opcode::OP_ATAN) {
        BI w(-M_PI / 2, M_PI / 2);
        aux.push_back(hex(w.lower())); aux.push_back(hex(w.upper()));
    } else if (op == Opcode::OP_POW) {
        // the two libm probes of Interval::pow's flag expression
        int bPt = int(blo);
        aux.push_back(hex(std::isnan(std::pow(0.0f, -1.0f)) ? 1.0f : 0.0f));
        aux.push_back(hex(std::isnan(std::pow(-1.0f, bPt)) ? 1.0f : 0.0f));
    } else if (op == Opcode::OP_MOD) {
        BI out(fmin(blo, 0.0f), fmax(0.0f, bhi));
        aux.push_back(hex(out.lower())); aux.push_back(hex(out.upper()));
        int pos = (bhi >= 0.0f) + 2 * (blo <= 0.0f);
        if (std::isfinite(ahi) && std::isfinite(alo) && (pos == 1 || pos == 2)) {
            BI ai(alo, ahi), bi(blo, bhi);
            BI usedA = ai;
            if (pos == 2) usedA *= -1;
            auto absB = boost::numeric::abs(bi);
            auto q = usedA / absB;
            // std::floor of the quotient bounds and the refined candidate `a.i - b.i * floor(q.lo)`
            float fl = std::floor(q.lower()), fu = std::floor(q.upper());
            BI alt = ai - bi * fl;
            aux.push_back(hex(q.lower())); aux.push_back(hex(q.upper()));
            aux.push_back(hex(fl)); aux.push_back(hex(fu));
            aux.push_back(hex(alt.lower())); aux.push_back(hex(alt.upper()));
        }
    }
    return aux;
}

struct Esc { const char* why; float a, b, r; };

static long nCases = 0, nPts = 0;

static void runCase(OpRig& rig, const char* kind, Interval A, Interval B) {
    forceRoundNearest();
    std::ostringstream o;
    const std::string opn = pname(rig.op);
    Interval X = A, Y = B;
    if (rig.swapped) std::swap(X, Y);
    Interval R = rig.iv->run(X, rig.nargs == 2 && !rig.isConstB ? Y : Interval(0.0f, 0.0f), Interval(0.0f, 0.0f));
    int rndOk = (fegetround() == FE_TONEAREST);
    forceRoundNearest();
    if (rig.isConstB) B = Interval(rig.kconst, rig.kconst);
    if (rig.nargs == 1) B = Interval(0.0f, 0.0f);
    o << "r " << kind << " " << opn;
    printIv(o, A); printIv(o, B);
    o << " res"; printIv(o, R);
    auto aux = auxFor(rig.op, A, B);
    o << " aux " << aux.size();
    for (auto& s : aux) o << " " << s;

    // ---- points
    auto pa = samplePts(A.lower(), A.upper(), !A.isSafe());
    std::vector<float> pb = {0.0f};
    if (rig.nargs == 2 && !rig.isConstB) pb = samplePts(B.lower(), B.upper(), !B.isSafe());
    if (rig.isConstB) pb = {rig.kconst};
    size_t n = 0;
    std::vector<std::pair<float, float>> pts;
    for (float a : pa) for (float b : pb) {
        if (n >= 256) break;
        float x = a, y = b;
        if (rig.swapped) std::swap(x, y);
        rig.arr->set(Eigen::Vector3f(x, rig.isConstB || rig.nargs == 1 ? 0.0f : y, 0.0f), n++);
        pts.push_back({a, b});
    }
    auto out = rig.arr->values(n);
    o << " pts " << n << " rnd " << rndOk << " st " << stateName(R);
    std::cout << o.str() << "\n";
    nCases++; nPts += n;
    if (!R.isSafe()) return;
    // exact filter; at most one point per kind of escape (the worst one)
    bool haveNan = false, haveLo = false, haveHi = false;
    Esc eNan{"nan", 0, 0, 0}, eLo{"lo", 0, 0, 0}, eHi{"hi", 0, 0, 0};
    for (size_t k = 0; k < n; ++k) {
        float r = out(k);
        if (std::isnan(r)) { if (!haveNan) { haveNan = true; eNan = {"nan", pts[k].first, pts[k].second, r}; } }
        else if (r < R.lower() || std::isnan(R.lower())) { if (!haveLo || r < eLo.r) { haveLo = true; eLo = {"lo", pts[k].first, pts[k].second, r}; } }
        else if (r > R.upper() || std::isnan(R.upper())) { if (!haveHi || r > eHi.r) { haveHi = true; eHi = {"hi", pts[k].first, pts[k].second, r}; } }
    }
    for (auto* e : {&eNan, &eLo, &eHi}) {
        if ((e == &eNan && !haveNan) || (e == &eLo && !haveLo) || (e == &eHi && !haveHi)) continue;
        std::ostringstream q;
        q << "esc " << e->why << " " << opn;
        printIv(q, A); printIv(q, B);
        q << " res"; printIv(q, R);
        q << " at " << hex(e->a) << " " << hex(e->b) << " val " << hex(e->r);
        std::cout << q.str() << "\n";
    }
}

// ------------------------------------------------------------------ stream 3: whole expressions
struct ArrEval : public ArrayEvaluator {
    ArrEval(std::shared_ptr<Deck> d) : BaseEvaluator(d, std::map<Tree::Id, float>()), ArrayEvaluator(d) {}
    float slot(size_t clause, size_t idx) const { return v(clause, idx); }
};

static void runExpr(const std::string& caseId, const Tree& t, const Eigen::Vector3f& lo, const Eigen::Vector3f& hi,
                    int g, const std::vector<Eigen::Vector3f>& extra) {
    forceRoundNearest();
    auto deck = std::make_shared<Deck>(t);
    IvEval iv(deck);
    ArrEval arr(deck);
    Interval R = iv.eval(lo, hi);
    int rndOk = (fegetround() == FE_TONEAREST);
    forceRoundNearest();
    // sample points: lattice g^3 including the faces (corners for g >= 2), plus extras
    std::vector<Eigen::Vector3f> pts;
    auto axis = [&](int ax) {
        std::vector<float> v;
        float a = lo(ax), b = hi(ax);
        v.push_back(a);
        if (!sameBits(a, b)) {
            v.push_back(b);
            if (std::isfinite(a) && std::isfinite(b))
                for (int k = 1; k + 1 < g; ++k) {
                    float x = a + (b - a) * (float(k) / float(g - 1));
                    if (x > a && x < b) v.push_back(x);
                }
            for (float z : {-0.0f, 0.0f}) if (a < z && z < b) v.push_back(z);
        }
        return v;
    };
    auto vx = axis(0), vy = axis(1), vz = axis(2);
    for (float x : vx) for (float y : vy) for (float z : vz) pts.push_back({x, y, z});
    for (auto& e : extra) pts.push_back(e);

    long nanCount = 0;
    float vmin = INFINITY, vmax = -INFINITY;
    std::set<std::pair<size_t, std::string>> blamed;
    std::set<size_t> rootBlamed;
    std::vector<std::string> escLines;
    std::vector<Clause> cl(deck->tape->rbegin(), deck->tape->rend());   // evaluation order
    const size_t rootSlot = deck->tape->root();
    std::vector<char> tainted(deck->num_clauses + 2, 0);
    for (size_t base = 0; base < pts.size(); base += 256) {
        size_t n = std::min<size_t>(256, pts.size() - base);
        for (size_t k = 0; k < n; ++k) arr.set(pts[base + k], k);
        auto out = arr.values(n);
        for (size_t k = 0; k < n; ++k) {
            float r = out(k);
            if (std::isnan(r)) nanCount++;
            else { vmin = std::min(vmin, r); vmax = std::max(vmax, r); }
            // Origins: clauses whose point value breaks the *strong* invariant of their own interval
            // slot (NaN while not flagged / non-NaN outside the bounds, flagged or not) while all
            // their operands keep it.  Clauses fed by a broken operand are tainted, not blamed.
            std::fill(tainted.begin(), tainted.end(), 0);
            long firstOrigin = -1;
            for (auto& c : cl) {
                if (c.op == Opcode::ORACLE) continue;
                const Interval& S = iv.slot(c.id);
                float pv = arr.slot(c.id, k);
                const char* why = nullptr;
                if (std::isnan(pv)) { if (S.isSafe()) why = "nan"; }
                else if (pv < S.lower() || std::isnan(S.lower())) why = "lo";
                else if (pv > S.upper() || std::isnan(S.upper())) why = "hi";
                if (!why) continue;
                bool inherited = tainted[c.a] || (Opcode::args(c.op) == 2 && tainted[c.b]);
                tainted[c.id] = 1;
                if (inherited) continue;
                if (firstOrigin < 0) firstOrigin = (long)c.id;
                if (blamed.insert({c.id, why}).second) {
                    std::ostringstream q;
                    q << "esc " << why << " " << pname(c.op);
                    printIv(q, iv.slot(c.a));
                    if (Opcode::args(c.op) == 2) printIv(q, iv.slot(c.b)); else printIv(q, Interval(0.0f, 0.0f));
                    q << " res"; printIv(q, S);
                    q << " at " << hex(arr.slot(c.a, k)) << " "
                      << hex(Opcode::args(c.op) == 2 ? arr.slot(c.b, k) : 0.0f) << " val " << hex(pv)
                      << " point " << hex(pts[base + k].x()) << " " << hex(pts[base + k].y()) << " " << hex(pts[base + k].z())
                      << " clause " << c.id;
                    escLines.push_back(q.str());
                }
            }
            // root-level statement of the property at this point
            if (R.isSafe() && (std::isnan(r) || std::isnan(R.lower()) || std::isnan(R.upper()) ||
                               r < R.lower() || r > R.upper())) {
                if (rootBlamed.insert((size_t)(firstOrigin + 1)).second) {
                    std::ostringstream q;
                    q << "rootesc val " << hex(r) << " root " << hex(R.lower()) << " " << hex(R.upper())
                      << " point " << hex(pts[base + k].x()) << " " << hex(pts[base + k].y()) << " " << hex(pts[base + k].z())
                      << " origin " << firstOrigin << " rootslot " << rootSlot;
                    escLines.push_back(q.str());
                }
            }
        }
    }
    // the tie on real multi-clause tapes: one `r` line per clause (operand slots, result slot)
    for (auto& c : cl) {
        if (c.op == Opcode::ORACLE) continue;
        const bool bin = Opcode::args(c.op) == 2;
        Interval A = iv.slot(c.a), B = bin ? iv.slot(c.b) : Interval(0.0f, 0.0f);
        std::ostringstream o;
        o << "r e3 " << pname(c.op);
        printIv(o, A); printIv(o, B);
        o << " res"; printIv(o, iv.slot(c.id));
        auto aux = auxFor(c.op, A, B);
        o << " aux " << aux.size();
        for (auto& a : aux) o << " " << a;
        o << " pts 0 rnd 1 st " << stateName(iv.slot(c.id));
        std::cout << o.str() << "\n";
    }
    std::cout << "x " << caseId << " root"; printIv(std::cout, R);
    std::cout << " pts " << pts.size() << " nan " << nanCount << " min " << hex(vmin) << " max " << hex(vmax)
              << " rnd " << rndOk << " clauses " << cl.size() << "\n";
    for (auto& s : escLines) std::cout << s << "\n";
    nCases++; nPts += pts.size();
}

int main(int argc, char** argv) {
    if (argc < 2) { fprintf(stderr, "usage: interval <program>\n"); return 2; }
    std::ifstream in(argv[1]);
    std::string line;
    TreeProg prog;
    std::string caseId = "?";
    int rootId = -1;
    std::ios::sync_with_stdio(false);

    auto forIntervals = [&](bool withFlags, const std::function<void(const Interval&)>& f) {
        for (size_t i = 0; i < vals.size(); ++i)
            for (size_t j = i; j < vals.size(); ++j)
                f(Interval(vals[i], vals[j], false));
        if (withFlags)
            for (size_t i = 0; i < subIdx.size(); ++i)
                for (size_t j = i; j < subIdx.size(); ++j)
                    f(Interval(vals[subIdx[i]], vals[subIdx[j]], true));
    };

    while (std::getline(in, line)) {
        auto w = split(line);
        if (w.empty()) continue;
        if (w[0] == "vals") {
            vals.clear();
            for (int k = 0; k < atoi(w[1].c_str()); ++k) vals.push_back(unhex(w[2 + k]));
        } else if (w[0] == "sub") {
            subIdx.clear();
            for (int k = 0; k < atoi(w[1].c_str()); ++k) subIdx.push_back(atoi(w[2 + k].c_str()));
        } else if (w[0] == "exps") {
            exps.clear();
            for (int k = 0; k < atoi(w[1].c_str()); ++k) exps.push_back(atoi(w[2 + k].c_str()));
        } else if (w[0] == "grid1") {
            OpRig rig(opOf(w[1]));
            if (!rig.valid) { std::cout << "skip rig " << w[1] << "\n"; continue; }
            forIntervals(true, [&](const Interval& A) { runCase(rig, "g1", A, Interval(0.0f, 0.0f)); });
        } else if (w[0] == "grid2") {
            OpRig rig(opOf(w[1]));
            if (!rig.valid) { std::cout << "skip rig " << w[1] << "\n"; continue; }
            std::vector<Interval> plain, flagged;
            forIntervals(false, [&](const Interval& A) { plain.push_back(A); });
            for (size_t i = 0; i < subIdx.size(); ++i)
                for (size_t j = i; j < subIdx.size(); ++j)
                    flagged.push_back(Interval(vals[subIdx[i]], vals[subIdx[j]], false));
            for (auto& A : plain) for (auto& B : plain) runCase(rig, "g2", A, B);
            for (int m = 1; m < 4; ++m)
                for (auto& A : flagged) for (auto& B : flagged)
                    runCase(rig, "g2f", Interval(A.lower(), A.upper(), (m & 1) != 0),
                            Interval(B.lower(), B.upper(), (m & 2) != 0));
        } else if (w[0] == "gridk") {
            for (int k : exps) {
                OpRig rig(opOf(w[1]), true, float(k));
                if (!rig.valid) { std::cout << "skip rig " << w[1] << " " << k << "\n"; continue; }
                forIntervals(true, [&](const Interval& A) { runCase(rig, "gk", A, Interval(float(k), float(k))); });
            }
        } else if (w[0] == "case1") {
            OpRig rig(opOf(w[1]));
            if (!rig.valid) { std::cout << "skip rig " << w[1] << "\n"; continue; }
            runCase(rig, "c1", Interval(unhex(w[2]), unhex(w[3]), w[4] == "1"), Interval(0.0f, 0.0f));
        } else if (w[0] == "case2") {
            OpRig rig(opOf(w[1]));
            if (!rig.valid) { std::cout << "skip rig " << w[1] << "\n"; continue; }
            runCase(rig, "c2", Interval(unhex(w[2]), unhex(w[3]), w[4] == "1"),
                    Interval(unhex(w[5]), unhex(w[6]), w[7] == "1"));
        } else if (w[0] == "casek") {
            int k = atoi(w[5].c_str());
            OpRig rig(opOf(w[1]), true, float(k));
            if (!rig.valid) { std::cout << "skip rig " << w[1] << " " << k << "\n"; continue; }
            runCase(rig, "ck", Interval(unhex(w[2]), unhex(w[3]), w[4] == "1"), Interval(float(k), float(k)));
        } else if (w[0] == "case") {
            prog.clear(); caseId = w[1]; rootId = -1;
        } else if (w[0] == "n") {
            prog.exec(w);
        } else if (w[0] == "root") {
            rootId = atoi(w[1].c_str());
        } else if (w[0] == "box") {
            Eigen::Vector3f lo(unhex(w[1]), unhex(w[2]), unhex(w[3])), hi(unhex(w[4]), unhex(w[5]), unhex(w[6]));
            int g = atoi(w[7].c_str());
            std::vector<Eigen::Vector3f> extra;
            for (size_t k = 8; k + 2 < w.size(); k += 3)
                extra.push_back({unhex(w[k]), unhex(w[k + 1]), unhex(w[k + 2])});
            runExpr(caseId + ":" + std::to_string(nCases), prog.nodes.at(rootId), lo, hi, g, extra);
        }
    }
    std::cout << "done cases " << nCases << " points " << nPts << "\n";
    return 0;
}
