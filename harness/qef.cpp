// C19 harness: runs the REAL QEF<N> code (header-only template in
// libfive/include/libfive/render/brep/simplex/qef.hpp) on generated sample sets and boxes and
// prints what it did.  Deliberately dumb: no judging here.
//
// input (file argv[1]), one block per case:
//   case <id> <N>
//   box <lo>*N <hi>*N                  doubles as 16-hex-digit bit patterns
//   shrink <p>
//   target default | target <tpos>*N <tval>
//   sample <pos>*N <nrm>*N <val>       0..many
//   perm <i0> <i1> ...                 an insertion order (permutation of sample indices), 0..many lines
//   split <k>                          build samples [0,k) and [k,m) separately, then +=   (0..many lines)
//   end
// output: see the `emit` calls; every line starts with a keyword, the block ends with `end`.
#include <cfenv>
#include <cinttypes>
#include <cmath>
#include <cstdint>
#include <cstdio>
#include <cstring>
#include <fstream>
#include <iostream>
#include <sstream>
#include <string>
#include <utility>
#include <vector>

#include "libfive/render/brep/simplex/qef.hpp"

using namespace libfive;

static std::string hx(double d) {
    uint64_t u; memcpy(&u, &d, 8);
    char b[32]; snprintf(b, sizeof b, "%016" PRIx64, u);
    return b;
}
static double unhx(const std::string& s) {
    uint64_t u = strtoull(s.c_str(), nullptr, 16);
    double d; memcpy(&d, &u, 8);
    return d;
}
static std::vector<std::string> split(const std::string& line) {
    std::istringstream is(line);
    std::vector<std::string> out; std::string t;
    while (is >> t) out.push_back(t);
    return out;
}

// Exposes the protected matrices (read-only use)
template <unsigned N>
struct Peek : public QEF<N> {
    Peek(const QEF<N>& q) : QEF<N>(q) {}
    using QEF<N>::AtA;
    using QEF<N>::AtBp;
    using QEF<N>::BptBp;
};

template <unsigned N>
static std::string mats(const QEF<N>& q) {
    Peek<N> p(q);
    std::string s;
    for (unsigned i = 0; i <= N; ++i) for (unsigned j = 0; j <= N; ++j) s += " " + hx(p.AtA(i, j));
    for (unsigned i = 0; i <= N; ++i) for (unsigned j = 0; j <= N; ++j) s += " " + hx(p.AtBp(i, j));
    for (unsigned i = 0; i <= N; ++i) for (unsigned j = 0; j <= N; ++j) s += " " + hx(p.BptBp(i, j));
    return s;
}

template <unsigned N>
static std::string sol(const typename QEF<N>::Solution& s) {
    std::string o;
    for (unsigned i = 0; i < N; ++i) o += " " + hx(s.position(i));
    o += " ";
    for (unsigned i = 0; i < N; ++i) o += s.constrained(i) ? "1" : "0";
    if (N == 0) o += "-";
    o += " " + hx(s.value) + " " + std::to_string(s.rank) + " " + hx(s.error);
    return o;
}

struct SampleIn { std::vector<double> pos, nrm; double val; };

template <unsigned N>
static void insertOne(QEF<N>& q, const SampleIn& s) {
    Eigen::Matrix<double, 1, N> p, n;
    for (unsigned i = 0; i < N; ++i) { p(i) = s.pos[i]; n(i) = s.nrm[i]; }
    q.insert(p, n, s.val);
}

// every subspace the search can visit
template <unsigned N, unsigned NB>
static void candOne(const QEF<N>& q, const Region<N>& shrunk,
                    const Eigen::Matrix<double, 1, N>& tpos, double tval) {
    auto s = q.template solveConstrained<NB>(shrunk, tpos, tval);
    printf("cand %u%s\n", NB, sol<N>(s).c_str());
}
template <unsigned N, std::size_t... I>
static void candAll(const QEF<N>& q, const Region<N>& shrunk,
                    const Eigen::Matrix<double, 1, N>& tpos, double tval, std::index_sequence<I...>) {
    (candOne<N, (unsigned)I>(q, shrunk, tpos, tval), ...);
}

// every sub<mask>
template <unsigned N, unsigned MASK>
static void subOne(const QEF<N>& q) {
    auto s = q.template sub<MASK>();
    printf("sub %u%s\n", MASK, mats<bitcount(MASK)>(s).c_str());
}
template <unsigned N, std::size_t... I>
static void subAll(const QEF<N>& q, std::index_sequence<I...>) {
    (subOne<N, (unsigned)I>(q), ...);
}

struct CaseIn {
    std::string id;
    std::vector<double> lo, hi;
    double shrink = 1 - 1e-9;
    bool target_default = true;
    std::vector<double> tpos; double tval = 0;
    std::vector<SampleIn> samples;
    std::vector<std::vector<unsigned>> perms;
    std::vector<unsigned> splits;
};

template <unsigned N>
static void runCase(const CaseIn& c) {
    fesetround(FE_TONEAREST);
    printf("case %s %u\n", c.id.c_str(), N);

    Region<N> region;
    for (unsigned i = 0; i < N; ++i) { region.lower(i) = c.lo[i]; region.upper(i) = c.hi[i]; }
    std::string s = "box";
    for (unsigned i = 0; i < N; ++i) s += " " + hx(region.lower(i));
    for (unsigned i = 0; i < N; ++i) s += " " + hx(region.upper(i));
    printf("%s\n", s.c_str());
    printf("shrink %s\n", hx(c.shrink).c_str());

    QEF<N> q;
    for (const auto& sm : c.samples) {
        insertOne<N>(q, sm);
        s = "sample";
        for (auto v : sm.pos) s += " " + hx(v);
        for (auto v : sm.nrm) s += " " + hx(v);
        s += " " + hx(sm.val);
        printf("%s\n", s.c_str());
    }
    printf("mat%s\n", mats<N>(q).c_str());

    // the region the search really uses
    const Region<N> shrunk = region.shrink(c.shrink);
    s = "shrunk";
    for (unsigned i = 0; i < N; ++i) s += " " + hx(shrunk.lower(i));
    for (unsigned i = 0; i < N; ++i) s += " " + hx(shrunk.upper(i));
    printf("%s\n", s.c_str());

    // target: either given, or the default of the 2-argument solveBounded
    Eigen::Matrix<double, 1, N> tpos;
    double tval;
    if (c.target_default) {
        tpos = (region.lower + region.upper) / 2.0;
        // as the 2-argument solveBounded derives it (checked: `result4` must equal `result`,
        // and the Lean model's defaultTargetValue must equal this bit for bit)
        Peek<N> pk(q);
        tval = (pk.AtA(N, N) != 0.0) ? (pk.AtBp(N, N) / pk.AtA(N, N)) : 0.0;
    } else {
        for (unsigned i = 0; i < N; ++i) tpos(i) = c.tpos[i];
        tval = c.tval;
    }
    s = std::string("target ") + (c.target_default ? "default" : "given");
    for (unsigned i = 0; i < N; ++i) s += " " + hx(tpos(i));
    s += " " + hx(tval);
    printf("%s\n", s.c_str());

    // the real candidates: full-dimension solve and every constrained solve
    printf("full%s\n", sol<N>(q.solve(tpos, tval)).c_str());
    candAll<N>(q, shrunk, tpos, tval, std::make_index_sequence<ipow(3, N)>());

    // the real answer
    typename QEF<N>::Solution r4 = q.solveBounded(region, c.shrink, tpos, tval);
    if (c.target_default) {
        QEF<N> q2 = q;
        typename QEF<N>::Solution r2 = q2.solveBounded(region, c.shrink);
        printf("result%s\n", sol<N>(r2).c_str());
        printf("result4%s\n", sol<N>(r4).c_str());
        printf("errat %s\n", hx(q.error(r2.position, r2.value)).c_str());
    } else {
        printf("result%s\n", sol<N>(r4).c_str());
        printf("errat %s\n", hx(q.error(r4.position, r4.value)).c_str());
    }

    // sub<mask> for every mask
    subAll<N>(q, std::make_index_sequence<(1u << N)>());

    // accumulation in other orders
    for (const auto& pm : c.perms) {
        QEF<N> qp;
        for (auto i : pm) insertOne<N>(qp, c.samples[i]);
        s = "permmat";
        for (auto i : pm) s += " " + std::to_string(i);
        printf("%s :%s\n", s.c_str(), mats<N>(qp).c_str());
        QEF<N> qp2 = qp;
        auto rp = c.target_default ? qp2.solveBounded(region, c.shrink)
                                   : qp2.solveBounded(region, c.shrink, tpos, tval);
        printf("permresult%s\n", sol<N>(rp).c_str());
    }
    for (auto k : c.splits) {
        QEF<N> a, b;
        for (unsigned i = 0; i < c.samples.size(); ++i) insertOne<N>(i < k ? a : b, c.samples[i]);
        QEF<N> ab = a; ab += b;
        QEF<N> ba = b; ba += a;
        printf("splitmat %u a%s\n", k, mats<N>(a).c_str());
        printf("splitmat %u b%s\n", k, mats<N>(b).c_str());
        printf("splitmat %u ab%s\n", k, mats<N>(ab).c_str());
        printf("splitmat %u ba%s\n", k, mats<N>(ba).c_str());
    }
    printf("end\n");
}

int main(int argc, char** argv) {
    if (argc < 2) { fprintf(stderr, "usage: qef <cases>\n"); return 2; }
    std::ifstream in(argv[1]);
    std::string line;
    CaseIn c; unsigned N = 0; bool open = false;
    while (std::getline(in, line)) {
        auto w = split(line);
        if (w.empty()) continue;
        if (w[0] == "case") { c = CaseIn(); c.id = w[1]; N = (unsigned)atoi(w[2].c_str()); open = true; }
        else if (!open) continue;
        else if (w[0] == "box") {
            for (unsigned i = 0; i < N; ++i) c.lo.push_back(unhx(w[1 + i]));
            for (unsigned i = 0; i < N; ++i) c.hi.push_back(unhx(w[1 + N + i]));
        } else if (w[0] == "shrink") c.shrink = unhx(w[1]);
        else if (w[0] == "target") {
            if (w[1] == "default") c.target_default = true;
            else {
                c.target_default = false;
                for (unsigned i = 0; i < N; ++i) c.tpos.push_back(unhx(w[1 + i]));
                c.tval = unhx(w[1 + N]);
            }
        } else if (w[0] == "sample") {
            SampleIn sm;
            for (unsigned i = 0; i < N; ++i) sm.pos.push_back(unhx(w[1 + i]));
            for (unsigned i = 0; i < N; ++i) sm.nrm.push_back(unhx(w[1 + N + i]));
            sm.val = unhx(w[1 + 2 * N]);
            c.samples.push_back(sm);
        } else if (w[0] == "perm") {
            std::vector<unsigned> pm;
            for (size_t i = 1; i < w.size(); ++i) pm.push_back((unsigned)atoi(w[i].c_str()));
            c.perms.push_back(pm);
        } else if (w[0] == "split") c.splits.push_back((unsigned)atoi(w[1].c_str()));
        else if (w[0] == "end") {
            if (N == 0) runCase<0>(c);
            else if (N == 1) runCase<1>(c);
            else if (N == 2) runCase<2>(c);
            else if (N == 3) runCase<3>(c);
            else printf("case %s %u\nunsupported\nend\n", c.id.c_str(), N);
            fflush(stdout);
            open = false;
        }
    }
    return 0;
}
