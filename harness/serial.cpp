// C08 harness: archives through the real Serializer / Deserializer.
// Reads a program file (argv[1]); every case runs in a forked child (the library may touch freed
// memory on some inputs); prints what the library did:
//   heap / shape / walk   the archive as built (flattened DAG, shared numbering across shapes)
//   bytes / serlog        what Archive::serialize wrote / said
//   lheap / lshape / log / exc   what Archive::deserialize returned / said / threw
//   eval                  value of flattened original vs reloaded tree at the sample points
// Dumb by design: prints, does not judge.
#include <csignal>
#include <fstream>
#include <sys/wait.h>
#include <unistd.h>

#include "common.hpp"
#include "libfive/tree/archive.hpp"
using namespace vh;

static std::string hexs(const std::string& s) {
    static const char* d = "0123456789abcdef";
    std::string o;
    for (unsigned char c : s) { o.push_back(d[c >> 4]); o.push_back(d[c & 15]); }
    return o.empty() ? "-" : o;
}
static std::string unhexs(const std::string& h) {
    std::string o;
    if (h == "-") return o;
    for (size_t i = 0; i + 1 < h.size(); i += 2)
        o.push_back((char)strtoul(h.substr(i, 2).c_str(), nullptr, 16));
    return o;
}

// classes of the library's messages on std::cerr, in order of appearance
static std::string classify(const std::string& text) {
    static const std::vector<std::pair<std::string, std::string>> marks = {
        {"expected !in.eof()", "eof"},
        {"expected tag ==", "tag"},
        {"expected op > ", "opLow"},
        {"expected op < ", "opHigh"},
        {"EOF at beginning of string", "strEof"},
        {"expected opening", "strOpen"},
        {"expected t != trees.end()", "varIdx"},
        {"expected out.vars.find", "varDup"},
        {"failed to deserialize Oracle", "oracle"},
        {"named variable not found", "varMissing"},
    };
    std::map<size_t, std::string> found;
    for (auto& m : marks) {
        size_t p = 0;
        while ((p = text.find(m.first, p)) != std::string::npos) { found[p] = m.second; p += 1; }
    }
    std::ostringstream o;
    o << found.size();
    for (auto& f : found) o << " " << f.second;
    return o.str();
}

struct TreeFlag : public Tree {
    // Tree::with_flags is protected; TREE_FLAG_IS_OPTIMIZED = 1 makes Deck skip optimized()
    static Tree optimizedFlag(const Tree& t) { return (t.*(&TreeFlag::with_flags))(1u); }
};

struct ShapeIn { int node; std::string name, doc; std::vector<std::pair<int, std::string>> vars; };

static void dumpLoaded(const Archive& b) {
    DagDumper D;
    std::vector<int> roots;
    for (auto& s : b.shapes) roots.push_back(D.visit(s.tree.get()));
    std::cout << "lheap " << D.count << D.out.str() << "\n";
    size_t i = 0;
    for (auto& s : b.shapes) {
        // keys of the var map are only looked up, never dereferenced (they may be garbage)
        std::map<int, std::string> vs;   // by dag id (the std::map itself is in pointer order)
        int unreach = 0;
        for (auto& v : s.vars) {
            auto f = D.ids.find(static_cast<const TreeData*>(v.first));
            if (f == D.ids.end()) ++unreach; else vs[f->second] = v.second;
        }
        std::cout << "lshape " << i << " root " << roots[i] << " name " << hexs(s.name) << " doc " << hexs(s.doc)
                  << " unreach " << unreach << " vars " << vs.size();
        for (auto& v : vs) std::cout << " " << v.first << " " << hexs(v.second);
        std::cout << "\n";
        ++i;
    }
}

static void runCase(const std::vector<std::string>& lines) {
    TreeProg prog;
    std::vector<ShapeIn> shapes;
    std::vector<Eigen::Vector3f> pts;
    std::vector<float> vals;
    std::string raw;
    bool haveRaw = false;
    for (auto& line : lines) {
        auto w = split(line);
        if (w.empty()) continue;
        if (w[0] == "n") prog.exec(w);
        else if (w[0] == "shape") {
            ShapeIn s{atoi(w[1].c_str()), unhexs(w[2]), unhexs(w[3]), {}};
            int nv = atoi(w[4].c_str());
            for (int k = 0; k < nv; ++k) s.vars.push_back({atoi(w[5 + 2 * k].c_str()), unhexs(w[6 + 2 * k])});
            shapes.push_back(s);
        } else if (w[0] == "pts") {
            int n = atoi(w[1].c_str());
            for (int k = 0; k < n; ++k)
                pts.push_back({unhex(w[2 + 3 * k]), unhex(w[3 + 3 * k]), unhex(w[4 + 3 * k])});
        } else if (w[0] == "vals") {
            for (size_t k = 1; k < w.size(); ++k) vals.push_back(unhex(w[k]));
        } else if (w[0] == "bytes") { raw = unhexs(w[1]); haveRaw = true; }
    }
    forceRoundNearest();

    Archive a;
    std::vector<Tree> flats;
    std::string bytes = raw;
    if (!haveRaw) {
        for (auto& s : shapes) {
            std::map<Tree::Id, std::string> vars;
            for (auto& v : s.vars) vars[prog.nodes.at(v.first).id()] = v.second;
            a.addShape(prog.nodes.at(s.node), s.name, s.doc, vars);
        }
        DagDumper D;
        std::vector<int> roots;
        for (auto& s : a.shapes) {
            flats.push_back(s.tree.flatten());
            roots.push_back(D.visit(flats.back().get()));
        }
        for (auto& s : a.shapes) for (auto& v : s.vars) D.visit(static_cast<const TreeData*>(v.first));
        std::cout << "heap " << D.count << D.out.str() << "\n";
        size_t i = 0;
        for (auto& s : a.shapes) {
            std::cout << "shape " << i << " root " << roots[i] << " remap " << (flats[i].id() != s.tree.id() ? 1 : 0)
                      << " name " << hexs(s.name) << " doc " << hexs(s.doc) << " vars " << s.vars.size();
            for (auto& v : s.vars)    // iteration order of the std::map = what the serializer sees
                std::cout << " " << D.ids.at(static_cast<const TreeData*>(v.first)) << " " << hexs(v.second);
            std::cout << "\n";
            std::cout << "walk " << i;
            auto wk = flats[i].walk();
            std::cout << " " << wk.size();
            for (auto n : wk) std::cout << " " << D.ids.at(n);
            std::cout << "\n";
            ++i;
        }
        std::cout.flush();
        // ---- real serializer
        std::stringstream out, err;
        auto old = std::cerr.rdbuf(err.rdbuf());
        std::string exc = "none";
        try { a.serialize(out); }
        catch (const std::out_of_range&) { exc = "out_of_range"; }
        catch (const std::exception& e) { exc = "other"; }
        std::cerr.rdbuf(old);
        bytes = out.str();
        std::cout << "serlog " << classify(err.str()) << "\n";
        std::cout << "serexc " << exc << "\n";
    }
    std::cout << "bytes " << hexs(bytes) << "\n";
    std::cout.flush();

    // ---- real deserializer
    Archive b;
    std::string exc = "none";
    {
        std::stringstream in(bytes), err;
        auto old = std::cerr.rdbuf(err.rdbuf());
        try { b = Archive::deserialize(in); }
        catch (const std::out_of_range&) { exc = "out_of_range"; }
        catch (const std::exception& e) { exc = "other"; }
        std::cerr.rdbuf(old);
        std::cout << "log " << classify(err.str()) << "\n";
        std::cout << "exc " << exc << "\n";
    }
    if (exc == "none") dumpLoaded(b);
    std::cout.flush();
    if (haveRaw || exc != "none") return;

    // ---- property oracle: flattened original vs reloaded, same evaluator, no optimiser in between
    std::cout << "nshapes " << a.shapes.size() << " " << b.shapes.size() << "\n";
    if (a.shapes.size() != b.shapes.size()) return;
    auto ia = a.shapes.begin();
    auto ib = b.shapes.begin();
    for (size_t i = 0; i < flats.size(); ++i, ++ia, ++ib) {
        std::map<std::string, float> byName;
        std::map<Tree::Id, float> va, vb;
        for (size_t k = 0; k < prog.var_ids.size(); ++k) {
            auto id = prog.nodes.at(prog.var_ids[k]).id();
            auto nm = ia->vars.find(id);
            if (nm != ia->vars.end()) {       // only named variables can be re-bound after loading
                float v = k < vals.size() ? vals[k] : 0.0f;
                va[id] = v;
                byName[nm->second] = v;
            }
        }
        for (auto& v : ib->vars) {
            auto f = byName.find(v.second);
            if (f != byName.end()) vb[v.first] = f->second;
        }
        std::cout << "evalvars " << i << " " << va.size() << " " << vb.size() << "\n";
        try {
            if (!ib->tree.is_valid()) { std::cout << "evalexc " << i << " invalid\n"; continue; }
            ArrayEvaluator ea(TreeFlag::optimizedFlag(flats[i]), va);
            ArrayEvaluator eb(TreeFlag::optimizedFlag(ib->tree), vb);
            for (size_t p = 0; p < pts.size(); ++p) {
                forceRoundNearest();
                float x = ea.value(pts[p]);
                forceRoundNearest();
                float y = eb.value(pts[p]);
                std::cout << "eval " << i << " " << p << " " << hex(x) << " " << hex(y) << "\n";
            }
        } catch (const std::exception& e) {
            std::cout << "evalexc " << i << " exception\n";
        }
    }
    std::cout.flush();
}

int main(int argc, char** argv) {
    if (argc < 2) { fprintf(stderr, "usage: serial <program> [nofork]\n"); return 2; }
    bool nofork = argc > 2 && std::string(argv[2]) == "nofork";
    std::ifstream in(argv[1]);
    std::string line;
    std::vector<std::string> cur;
    std::string header;
    while (std::getline(in, line)) {
        auto w = split(line);
        if (w.empty()) continue;
        if (w[0] == "case") { header = line; cur.clear(); }
        else if (w[0] == "end") {
            std::cout << header << "\n";
            std::cout.flush();
            if (nofork) {
                runCase(cur);
            } else {
                pid_t pid = fork();
                if (pid == 0) {
                    alarm(30);
                    runCase(cur);
                    std::cout.flush();
                    _exit(0);
                }
                int status = 0;
                waitpid(pid, &status, 0);
                if (WIFSIGNALED(status)) std::cout << "crash signal " << WTERMSIG(status) << "\n";
                else if (WEXITSTATUS(status) != 0) std::cout << "crash exit " << WEXITSTATUS(status) << "\n";
            }
            std::cout << "end\n";
            std::cout.flush();
        } else cur.push_back(line);
    }
    return 0;
}
