// Hook-side machinery shared by harness/progress.cpp (C20) and harness/cancel.cpp (C11):
//   * event log of the LIBFIVE_VERIF points (one total order, taken under a mutex)
//   * stable cell ids (pool objects are recycled, so pointers are renamed at "birth")
//   * free mode: seeded random yields at the points (real parallelism)
//   * controlled mode: a cooperative scheduler -- worker threads run one at a time, the token is
//     handed over at points only, so the log is the real total order of the segments
//   * "raise cancel at the k-th visit of site s"
// The harness is dumb on purpose: it prints what happened; judging is done in Lean / Python.
#pragma once
#include <atomic>
#include <condition_variable>
#include <cstdint>
#include <cstdio>
#include <map>
#include <mutex>
#include <random>
#include <sched.h>
#include <set>
#include <string>
#include <thread>
#include <unistd.h>
#include <vector>

#include "libfive/verif.hpp"

namespace ph {
using namespace libfive::verif;

struct Ev { int site; int64_t a, b; int tid; int64_t id, parent; };

inline const char* site_name(int s) {
    switch (s) {
        case SITE_POOL_POP: return "pool-pop"; case SITE_POOL_EVAL_DONE: return "pool-eval";
        case SITE_POOL_TICK: return "pool-tick"; case SITE_POOL_EXIT: return "pool-exit";
        case SITE_DUAL_POP: return "dual-pop"; case SITE_DUAL_EXIT: return "dual-exit";
        case SITE_INDEX_POP: return "index-pop"; case SITE_INDEX_EXIT: return "index-exit";
        case SITE_RENDER_PHASE: return "phase"; case SITE_RESET_TICK: return "reset-tick";
        case SITE_POOL_ANNOUNCE: return "pool-announce"; case SITE_POOL_PUSH: return "pool-push";
        case SITE_POOL_PUSH_LOCAL: return "pool-push-local"; case SITE_POOL_COLLECT: return "pool-collect";
        case SITE_DUAL_ANNOUNCE: return "dual-announce"; case SITE_DUAL_PUSH: return "dual-push";
        case SITE_DUAL_PUSH_LOCAL: return "dual-push-local"; case SITE_DUAL_LEAF: return "dual-leaf";
        case SITE_DUAL_PENDING: return "dual-pending"; case SITE_DUAL_TICK: return "dual-tick";
        case SITE_INDEX_PENDING: return "index-pending"; case SITE_INDEX_LEAF: return "index-leaf";
        case SITE_RESET_POOL: return "reset-pool"; case SITE_RESET_ANNOUNCE: return "reset-announce";
        case SITE_PROGRESS: return "progress"; case SITE_POOL_LOOP: return "pool-loop";
        case SITE_DUAL_LOOP: return "dual-loop"; case SITE_INDEX_LOOP: return "index-loop";
        case 1000: return "cancel";
        default: return "other";
    }
}
inline int site_of(const std::string& n) {
    for (int s = 1; s < 64; ++s) if (n == site_name(s)) return s;
    return -1;
}

// which sites are executed by pool worker threads (scheduled in controlled mode)
inline bool worker_site(int s) {
    switch (s) {
        case SITE_POOL_POP: case SITE_POOL_EVAL_DONE: case SITE_POOL_TICK: case SITE_POOL_PUSH:
        case SITE_POOL_PUSH_LOCAL: case SITE_POOL_COLLECT: case SITE_POOL_LOOP:
        case SITE_DUAL_POP: case SITE_DUAL_PUSH: case SITE_DUAL_PUSH_LOCAL: case SITE_DUAL_LEAF:
        case SITE_DUAL_PENDING: case SITE_DUAL_TICK: case SITE_DUAL_LOOP:
        case SITE_INDEX_POP: case SITE_INDEX_PENDING: case SITE_INDEX_LEAF: case SITE_INDEX_LOOP:
            return true;
        default: return false;
    }
}
inline bool exit_site(int s) { return s == SITE_POOL_EXIT || s == SITE_DUAL_EXIT || s == SITE_INDEX_EXIT; }

struct State {
    std::mutex m;
    std::condition_variable cv;
    std::vector<Ev> log;
    bool logging = true;
    bool log_loops = false;                 // loop-head events are numerous; logged in controlled mode only
    std::map<const void*, int64_t> ids;     // current incarnation of each cell pointer
    int64_t next_id = 0;
    std::atomic<int> next_tid{0};
    uint64_t seed = 1;
    // free mode
    double yield_p = 0.0;
    // controlled mode
    bool controlled = false;
    int running = -1;
    std::set<int> waiting;
    std::mt19937_64 sched_rng;
    // cancel at the k-th visit of a site (optionally only visits with payload a == cancel_a)
    int cancel_site = -1; int64_t cancel_a = -1, cancel_b = -1; long cancel_k = 0; long visits = 0;
    std::atomic_bool* cancel_flag = nullptr;
    bool cancel_raised = false;
    // per-phase-boundary callback for the owner harness (called outside the lock)
    void (*on_point)(int site, int64_t a, int64_t b, const void* p) = nullptr;
};
inline State& st() { static State s; return s; }

struct ThreadInfo { int tid = -1; int64_t cur = -1; std::mt19937_64 rng; };
inline ThreadInfo& ti() {
    thread_local ThreadInfo t;
    if (t.tid < 0) {
        t.tid = st().next_tid++;
        t.rng.seed(st().seed * 1000003ull + (uint64_t)t.tid * 7919ull + 17);
    }
    return t;
}

inline void reset(uint64_t seed) {
    State& s = st();
    std::lock_guard<std::mutex> l(s.m);
    s.log.clear(); s.ids.clear(); s.next_id = 0; s.seed = seed; s.running = -1; s.waiting.clear();
    s.sched_rng.seed(seed * 2654435761ull + 99); s.visits = 0; s.cancel_raised = false;
}

// cell-pointer -> id of its current incarnation (lock held)
inline int64_t id_of(State& s, const void* p, bool fresh) {
    if (!p) return -1;
    auto it = s.ids.find(p);
    if (fresh || it == s.ids.end()) { int64_t id = s.next_id++; s.ids[p] = id; return id; }
    return it->second;
}

inline void hook(int site, int64_t a, int64_t b, const void* p) {
    // sites of other properties (refcount steps, tet/quad dumps) are not ours
    if (site == SITE_TREE_STEP || site == SITE_TET || site == SITE_QUAD || site > SITE_INDEX_LOOP) return;
    State& s = st();
    ThreadInfo& t = ti();
    if (s.on_point) s.on_point(site, a, b, p);
    const bool sched = s.controlled && (worker_site(site) || exit_site(site));
    if (!s.controlled && s.yield_p > 0 && (worker_site(site) || site == SITE_RESET_TICK)) {
        double u = (t.rng() >> 11) * (1.0 / 9007199254740992.0);
        if (u < s.yield_p) {
            switch (t.rng() % 3) {
                case 0: sched_yield(); break;
                case 1: usleep(1 + t.rng() % 40); break;
                default: { volatile int x = 0; for (int i = 0, n = t.rng() % 2000; i < n; ++i) x += i; (void)x; }
            }
        }
    }
    std::unique_lock<std::mutex> l(s.m);
    // ---- log the event (it describes the segment this thread has just completed)
    int64_t id = -1, parent = -1;
    const bool cellsite = site == SITE_POOL_ANNOUNCE || site == SITE_POOL_POP || site == SITE_POOL_PUSH
        || site == SITE_POOL_PUSH_LOCAL || site == SITE_POOL_EVAL_DONE || site == SITE_POOL_TICK
        || site == SITE_POOL_COLLECT || site == SITE_DUAL_POP || site == SITE_DUAL_PUSH
        || site == SITE_DUAL_PUSH_LOCAL || site == SITE_DUAL_LEAF || site == SITE_DUAL_PENDING
        || site == SITE_DUAL_TICK || site == SITE_INDEX_POP || site == SITE_INDEX_LEAF
        || site == SITE_INDEX_PENDING || site == SITE_DUAL_ANNOUNCE;
    if (cellsite) {
        const bool birth = site == SITE_POOL_PUSH || site == SITE_POOL_ANNOUNCE;
        id = id_of(s, p, birth);
        if (site == SITE_POOL_PUSH || site == SITE_DUAL_PUSH) parent = t.cur;
        if (site == SITE_POOL_POP || site == SITE_DUAL_POP || site == SITE_INDEX_POP) t.cur = id;
    } else if (site == SITE_RESET_POOL || site == SITE_RESET_TICK) {
        id = id_of(s, p, false);
    }
    const bool is_loop = site == SITE_POOL_LOOP || site == SITE_DUAL_LOOP || site == SITE_INDEX_LOOP;
    if (s.logging && (!is_loop || s.log_loops)) s.log.push_back({site, a, b, t.tid, id, parent});
    // ---- cancel at the k-th visit.  In controlled mode the flag is raised only while this thread holds
    // the token (after the scheduling decision), so that the raise is serialised with the segments.
    auto maybe_cancel = [&]() {
        if (site == s.cancel_site && (s.cancel_a < 0 || s.cancel_a == a) && (s.cancel_b < 0 || s.cancel_b == b)) {
            if (++s.visits == s.cancel_k && s.cancel_flag && !s.cancel_raised) {
                s.cancel_flag->store(true);
                s.cancel_raised = true;
                if (s.logging) s.log.push_back({1000, site, s.visits, t.tid, -1, -1});
            }
        }
    };
    if (!sched) { maybe_cancel(); return; }
    // ---- cooperative scheduler
    const int me = t.tid;
    const bool leaving = exit_site(site);
    if (s.running == me) {
        if (leaving) maybe_cancel();
        std::vector<int> cand(s.waiting.begin(), s.waiting.end());
        if (!leaving) cand.push_back(me);
        if (cand.empty()) { s.running = -1; return; }
        int next = cand[s.sched_rng() % cand.size()];
        if (next == me) { maybe_cancel(); return; }
        s.running = next; s.waiting.erase(next);
        s.cv.notify_all();
        if (leaving) return;
        s.waiting.insert(me);
        s.cv.wait(l, [&] { return s.running == me; });
        maybe_cancel();
    } else {
        if (leaving) { maybe_cancel(); return; }
        if (s.running == -1) { s.running = me; maybe_cancel(); return; }
        s.waiting.insert(me);
        s.cv.wait(l, [&] { return s.running == me; });
        maybe_cancel();
    }
}

inline void install() { point_fn.store(&hook, std::memory_order_release); }

inline void dump_log(FILE* f) {
    State& s = st();
    std::lock_guard<std::mutex> l(s.m);
    for (auto& e : s.log)
        fprintf(f, "e %d %s %lld %lld %lld %lld\n", e.tid, site_name(e.site), (long long)e.a, (long long)e.b,
                (long long)e.id, (long long)e.parent);
}
}   // namespace ph
