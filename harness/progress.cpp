// C20 harness: runs real renders with a recording ProgressHandler and the pool hooks, prints
// what happened (announced totals, every tick event, the build-time and final octree shapes, the
// per-phase counters, every reported progress value).  Also runs handler life-cycle scenarios
// (early destruction, double finish) in a forked child under a watchdog.
//
//   progress <casefile>
// case line:  case <id> dim <2|3> alg <dc|simplex|hybrid> workers <w> minfeat <f> maxerr <e>
//                  seed <s> yield <p> [mode <free|controlled>] region <x0 y0 z0 x1 y1 z1> shape <prefix expression ...>
//             mode controlled: the cooperative scheduler of poolhook.hpp (one worker runs at a time, the log is
//             the real total order of the segments, loop heads are logged) -- the pool trace, with the tick
//             payloads interleaved, is replayed through Pool.step / Pool.tickOf by the driver
// life line:  life <id> <op> <op> ...      ops: start nextN tickN finish destroy sleep
#include <csignal>
#include <fstream>
#include <sys/wait.h>

#include "common.hpp"
#include "poolhook.hpp"
#include "poolshapes.hpp"

#include "libfive/render/brep/contours.hpp"
#include "libfive/render/brep/dc/dc_contourer.hpp"
#include "libfive/render/brep/dc/dc_tree.hpp"
#include "libfive/render/brep/dc/dc_worker_pool.hpp"
#include "libfive/render/brep/dual.hpp"
#include "libfive/render/brep/hybrid/hybrid_tree.hpp"
#include "libfive/render/brep/hybrid/hybrid_worker_pool.hpp"
#include "libfive/render/brep/mesh.hpp"
#include "libfive/render/brep/progress.hpp"
#include "libfive/render/brep/region.hpp"
#include "libfive/render/brep/settings.hpp"
#include "libfive/render/brep/simplex/simplex_tree.hpp"
#include "libfive/render/brep/simplex/simplex_worker_pool.hpp"

using namespace libfive;

struct Rec : public ProgressHandler {
    std::mutex vm;
    std::vector<double> values;
    void progress(double d) override { std::lock_guard<std::mutex> l(vm); values.push_back(d); }
    ~Rec() override { finish(); }   // join before `values` dies
    void printPhases(FILE* f) {
        fprintf(f, "phases %zu", phases.size());
        for (auto& p : phases) fprintf(f, " %u %llu %llu", p.weight, (unsigned long long)p.total,
                                       (unsigned long long)p.counter.load());
        fprintf(f, "\n");
    }
    bool valid() const { return future.valid(); }
    // consistent sample of the handler's state (what run() reads, under the same mutex)
    std::string snapshot() {
        std::lock_guard<std::mutex> lock(phase_mut);
        long cur = 0; bool found = false;
        for (auto it = phases.begin(); it != phases.end(); ++it, ++cur)
            if (it == current_phase) { found = true; break; }
        if (!found) return "";
        std::string out = std::to_string(cur);
        for (auto& p : phases)
            out += " " + std::to_string(p.weight) + " " + std::to_string(p.total) + " " +
                   std::to_string(p.counter.load());
        return out;
    }
};
static std::atomic<const void*> g_started{nullptr};   // handler whose first phase has begun

static std::string g_final;      // final tree dump, produced at dual-announce (or after build in 2D)
static int g_dim = 3;
static std::string g_alg;

template <typename T>
static void dumpFinal(const T* t, std::string& out) {
    if (T::isSingleton(t)) { out += " s"; return; }
    if (t->isBranch()) {
        out += " b " + std::to_string(t->children.size());
        for (auto& c : t->children) dumpFinal<T>(c.load(), out);
    } else {
        out += " c";
    }
}

static void onPoint(int site, int64_t a, int64_t, const void* p) {
    if (site == verif::SITE_PROGRESS && a == verif::PROGRESS_NEXT_PHASE) g_started.store(p);
    if (site != verif::SITE_DUAL_ANNOUNCE || !p) return;
    g_final.clear();
    if (g_dim == 3) {
        if (g_alg == "dc") dumpFinal(static_cast<const DCTree<3>*>(p), g_final);
        else if (g_alg == "simplex") dumpFinal(static_cast<const SimplexTree<3>*>(p), g_final);
        else dumpFinal(static_cast<const HybridTree<3>*>(p), g_final);
    } else {
        dumpFinal(static_cast<const DCTree<2>*>(p), g_final);
    }
}

static void runCase(const std::vector<std::string>& w) {
    std::map<std::string, std::string> kv;
    size_t i = 2;
    std::vector<double> reg;
    std::vector<std::string> shape;
    while (i < w.size()) {
        if (w[i] == "region") { for (int k = 0; k < 6; ++k) reg.push_back(atof(w[i + 1 + k].c_str())); i += 7; }
        else if (w[i] == "shape") { shape.assign(w.begin() + i + 1, w.end()); break; }
        else { kv[w[i]] = w[i + 1]; i += 2; }
    }
    g_dim = atoi(kv["dim"].c_str());
    g_alg = kv["alg"];
    size_t pos = 0;
    Tree tree = shapes::parse(shape, pos);

    BRepSettings settings;
    settings.workers = atoi(kv["workers"].c_str());
    settings.min_feature = atof(kv["minfeat"].c_str());
    settings.max_err = atof(kv["maxerr"].c_str());
    settings.alg = g_alg == "dc" ? DUAL_CONTOURING : g_alg == "simplex" ? ISO_SIMPLEX : HYBRID;

    ph::State& s = ph::st();
    ph::reset(strtoull(kv["seed"].c_str(), nullptr, 10));
    s.yield_p = atof(kv["yield"].c_str());
    s.controlled = kv.count("mode") && kv["mode"] == "controlled";
    s.log_loops = s.controlled;
    s.on_point = &onPoint;
    g_final.clear();

    printf("case %s dim %d alg %s workers %u mode %s\n", w[1].c_str(), g_dim, g_alg.c_str(), settings.workers,
           s.controlled ? "controlled" : "free");
    fflush(stdout);
    vh::forceRoundNearest();
    {
        Rec rec;
        settings.progress_handler = &rec;
        long tris = -1, verts = -1;
        g_started.store(nullptr);
        std::atomic_bool stop(false);
        std::vector<std::string> snaps;
        std::thread sampler([&] {
            std::string last;
            while (!stop.load()) {
                if (g_started.load() == static_cast<ProgressHandler*>(&rec)) {
                    std::string sn = rec.snapshot();
                    if (!sn.empty() && sn != last) {
                        // keep every change up to a cap, then thin out
                        if (snaps.size() < 300 || (snaps.size() < 2000 && (rand() % 64) == 0)) snaps.push_back(sn);
                        last = sn;
                    }
                }
                usleep(100);
            }
            std::string sn = (g_started.load() == static_cast<ProgressHandler*>(&rec)) ? rec.snapshot() : "";
            if (!sn.empty()) snaps.push_back(sn);
        });
        if (g_dim == 3) {
            Region<3> r({reg[0], reg[1], reg[2]}, {reg[3], reg[4], reg[5]});
            auto m = Mesh::render(tree, r, settings);
            if (m) { tris = m->branes.size(); verts = m->verts.size(); }
        } else {
            Region<2> r({reg[0], reg[1]}, {reg[3], reg[4]});
            rec.start({1, 1, 1});
            if (g_alg == "dc") {
                auto t = DCWorkerPool<2>::build(tree, r, settings);
                auto c = Dual<2>::walk<DCContourer>(t, settings);
                tris = c ? (long)c->contours.size() : -1;
                t.reset(settings);
            } else if (g_alg == "simplex") {
                auto t = SimplexWorkerPool<2>::build(tree, r, settings);
                rec.nextPhase(0);    // no 2D simplex walk exists: empty phase
                t.reset(settings);
            } else {
                auto t = HybridWorkerPool<2>::build(tree, r, settings);
                rec.nextPhase(0);
                t.reset(settings);
            }
            rec.finish();
        }
        stop.store(true);
        sampler.join();
        s.logging = false;   // the Root destructor's second reset is not part of the render
        ph::dump_log(stdout);
        for (auto& sn : snaps) printf("snap %s\n", sn.c_str());
        printf("final%s\n", g_final.c_str());
        rec.printPhases(stdout);
        {
            std::lock_guard<std::mutex> l(rec.vm);
            printf("values %zu", rec.values.size());
            for (double v : rec.values) printf(" %.9g", v);
            printf("\n");
        }
        printf("ret %ld %ld\n", tris, verts);
    }
    s.logging = true;
    s.controlled = false; s.log_loops = false;
    printf("end\n");
    fflush(stdout);
}

// life-cycle scenario in a child process: prints the PROGRESS events and "life-ok", or dies / hangs
static void runLife(const std::vector<std::string>& w) {
    printf("life %s", w[1].c_str());
    for (size_t i = 2; i < w.size(); ++i) printf(" %s", w[i].c_str());
    printf("\n");
    fflush(stdout);
    pid_t pid = fork();
    if (pid == 0) {
        alarm(20);
        ph::reset(1);
        ph::st().controlled = false; ph::st().yield_p = 0; ph::st().on_point = nullptr;
        {
            std::unique_ptr<Rec> rec(new Rec);
            for (size_t i = 2; i < w.size(); ++i) {
                const std::string& op = w[i];
                if (op == "start") rec->start({1, 2, 3});
                else if (op.rfind("next", 0) == 0) rec->nextPhase(atoi(op.c_str() + 4));
                else if (op.rfind("tick", 0) == 0) rec->tick(atoi(op.c_str() + 4));
                else if (op == "finish") rec->finish();
                else if (op == "sleep") usleep(70000);
                else if (op == "destroy") rec.reset();
                if (!rec) break;
            }
        }
        ph::dump_log(stdout);
        printf("life-ok\n");
        fflush(stdout);
        _exit(0);
    }
    int status = 0;
    waitpid(pid, &status, 0);
    if (WIFEXITED(status) && WEXITSTATUS(status) == 0) printf("life-end ok\n");
    else if (WIFSIGNALED(status)) printf("life-end signal %d\n", WTERMSIG(status));
    else printf("life-end exit %d\n", WEXITSTATUS(status));
    fflush(stdout);
}

int main(int argc, char** argv) {
    if (argc < 2) { fprintf(stderr, "usage: progress <casefile>\n"); return 2; }
    ph::install();
    std::ifstream in(argv[1]);
    std::string line;
    while (std::getline(in, line)) {
        auto w = vh::split(line);
        if (w.empty()) continue;
        if (w[0] == "case") runCase(w);
        else if (w[0] == "life") runLife(w);
    }
    return 0;
}
