// C10 harness: 2D contouring.
//   contours --tables        dump MarchingTable<2> (v / e / p tables as computed at start-up)
//   contours --loads         real DCContourer::load<A> on all consistent pairs of hand-built leaf cells
//   contours <program>       run a program file:
//
//   segs <id> <V> <nchildren> { <n_k> a b a b ... }      hand-built PerThreadBRep<2> objects fed into
//                                                       the real Contours::collect
//   case <id> / n ... (tree program lines) /
//   render <root> <lox> <loy> <hix> <hiy> <z> <min_feature> <max_err> <workers>
//   bpt <x> <y>             border point: prints the reference field value
//   pt <x> <y>              sample point (decimal double) for the winding measurement of the last render
//   end
//
// The harness prints what the library did plus *measurements* (reference field value in double,
// winding number of the returned polygons, radius at which a sign change is found around a
// contour vertex).  It does not judge: thresholds live in tools/checks/c10.py.
#include <fstream>
#include <iomanip>
#include <set>

#include "common.hpp"

#include "libfive/render/brep/brep.hpp"
#include "libfive/render/brep/contours.hpp"
#include "libfive/render/brep/dc/dc_contourer.hpp"
#include "libfive/render/brep/dc/dc_tree.hpp"
#include "libfive/render/brep/dc/dc_worker_pool.hpp"
#include "libfive/render/brep/dc/marching.hpp"
#include "libfive/render/brep/dual.hpp"
#include "libfive/render/brep/per_thread_brep.hpp"
#include "libfive/render/brep/settings.hpp"

using namespace vh;

// ------------------------------------------------------------------ tables
static int dumpTables() {
    std::cout << "marching2\n";
    for (unsigned m = 0; m < 16; ++m) {
        const auto& ps = MarchingTable<2>::v(m);
        std::cout << "v " << m;
        for (unsigned p = 0; p < ps.size(); ++p) {
            std::cout << " |";
            for (unsigned e = 0; e < ps[p].size(); ++e)
                std::cout << " " << ps[p][e].first << " " << ps[p][e].second;
        }
        std::cout << "\n";
    }
    for (unsigned a = 0; a < 4; ++a) {
        std::cout << "e " << a;
        for (unsigned b = 0; b < 4; ++b) std::cout << " " << MarchingTable<2>::e(a)[b];
        std::cout << "\n";
    }
    for (unsigned m = 0; m < 16; ++m) {
        std::cout << "p " << m;
        for (unsigned e = 0; e < 8; ++e) std::cout << " " << MarchingTable<2>::p(m)[e];
        std::cout << "\n";
    }
    std::cout << "axes " << (int)Axis::X << " " << (int)Axis::Y << "\n";
    std::cout << "states " << (int)Interval::EMPTY << " " << (int)Interval::FILLED << " "
              << (int)Interval::AMBIGUOUS << "\n";
    return 0;
}

// ------------------------------------------------------------------ DCContourer::load on hand-built leaves
// For both dual-edge axes and every pair of corner masks that agree on the two shared corners:
// two level-0 leaf cells are built by hand (type from the mask, one vertex per patch whose
// coordinate encodes (cell, patch)), the real DCContourer::load<A> is called on them and the
// pushed brane is decoded.   load <A> <m0> <m1> none | <srcCell> <srcPatch> <dstCell> <dstPatch>
template <Axis::Axis A>
static void loadOne(unsigned m0, unsigned m1) {
    std::atomic<uint32_t> counter(1);
    PerThreadBRep<2> brep(counter);
    DCContourer cont(brep);
    Region<2> r({0, 0}, {1, 1});
    DCTree<2> t0(nullptr, 0, r), t1(nullptr, 0, r);
    DCLeaf<2> l0, l1;
    DCTree<2>* ts[2] = {&t0, &t1};
    DCLeaf<2>* ls[2] = {&l0, &l1};
    unsigned ms[2] = {m0, m1};
    for (int c = 0; c < 2; ++c) {
        ts[c]->type = ms[c] == 0 ? Interval::EMPTY : ms[c] == 15 ? Interval::FILLED : Interval::AMBIGUOUS;
        if (ts[c]->type == Interval::AMBIGUOUS) {
            ts[c]->leaf = ls[c];
            ls[c]->corner_mask = ms[c];
            ls[c]->level = 0;
            const auto& ps = MarchingTable<2>::v(ms[c]);
            unsigned n = 0;
            while (n < ps.size() && ps[n][0].first != -1) ++n;
            ls[c]->vertex_count = n;
            for (unsigned k = 0; k < 2; ++k) ls[c]->verts.col(k) = Eigen::Vector2d(10 * c + k, 0);
        }
    }
    cont.load<A>({{&t0, &t1}});
    std::cout << "load " << (int)A << " " << m0 << " " << m1;
    if (brep.branes.empty()) std::cout << " none\n";
    else {
        auto decode = [&](uint32_t idx) {
            for (size_t k = 0; k < brep.indices.size(); ++k)
                if (brep.indices[k] == idx) return (int)brep.verts[k].x();
            return -1;
        };
        int a = decode(brep.branes[0][0]), b = decode(brep.branes[0][1]);
        std::cout << " " << a / 10 << " " << a % 10 << " " << b / 10 << " " << b % 10
                  << " branes " << brep.branes.size() << "\n";
    }
}

static int dumpLoads() {
    for (unsigned m0 = 0; m0 < 16; ++m0)
        for (unsigned m1 = 0; m1 < 16; ++m1) {
            auto bit = [](unsigned m, unsigned c) { return (m >> c) & 1u; };
            // dual edge along Y: cells side by side, cell 0's corners X, X|Y meet cell 1's corners 0, Y
            if (bit(m0, Axis::X) == bit(m1, 0) && bit(m0, Axis::X | Axis::Y) == bit(m1, Axis::Y))
                loadOne<Axis::Y>(m0, m1);
            // dual edge along X: cell 0 below cell 1, corners Y, Y|X meet corners 0, X
            if (bit(m0, Axis::Y) == bit(m1, 0) && bit(m0, Axis::Y | Axis::X) == bit(m1, Axis::X))
                loadOne<Axis::X>(m0, m1);
        }
    return 0;
}

// ------------------------------------------------------------------ feeding Contours::collect
// Encodes vertex index i as the coordinate (i, 0): indices < 2^24 are exact in float.
static std::string runCollect(const std::vector<PerThreadBRep<2>>& breps) {
    std::ostringstream o;
    size_t n = 0;
    for (auto& b : breps) n += b.branes.size();
    o << "in " << n;
    for (auto& b : breps)
        for (auto& s : b.branes) o << " " << s[0] << " " << s[1];
    Contours c;
    c.collect(breps);
    o << " out " << c.contours.size();
    for (auto& poly : c.contours) {
        o << " " << poly.size();
        for (auto& p : poly) o << " " << (uint32_t)p.x();
    }
    return o.str();
}

// ------------------------------------------------------------------ capture of the real segments
struct Capture {
    Contours real;       // Contours::collect on the real per-thread b-reps
    std::string idx;     // Contours::collect on the same b-reps with index-encoded coordinates
    std::vector<std::pair<uint32_t, uint32_t>> segs;
    size_t nverts = 0;
    void collect(const std::vector<PerThreadBRep<2>>& children) {
        real.collect(children);
        std::vector<PerThreadBRep<2>> enc(children);
        for (auto& c : enc) {
            for (size_t k = 0; k < c.verts.size(); ++k)
                c.verts[k] = Eigen::Vector2f((float)c.indices[k], 0.0f);
            nverts += c.verts.size();
            for (auto& s : c.branes) segs.push_back({s[0], s[1]});
        }
        idx = runCollect(enc);
    }
};
struct CapContourer : public DCContourer {
    using Output = Capture;
    using DCContourer::DCContourer;
};

// ------------------------------------------------------------------ reference field (double)
struct RefNode { int kind; int op; int a, b; double c; };   // kind 0 const 1 x 2 y 3 z 4 un 5 bin
struct RefProg {
    std::map<int, RefNode> nodes;
    bool ok = true;
    void exec(const std::vector<std::string>& w) {
        int id = atoi(w[1].c_str());
        const std::string& k = w[2];
        RefNode n{0, 0, 0, 0, 0};
        if (k == "const") { n.kind = 0; n.c = (double)unhex(w[3]); }
        else if (k == "x") n.kind = 1;
        else if (k == "y") n.kind = 2;
        else if (k == "z") n.kind = 3;
        else if (k == "un") { n.kind = 4; n.op = opOf(w[3]); n.a = atoi(w[4].c_str()); }
        else if (k == "bin") { n.kind = 5; n.op = opOf(w[3]); n.a = atoi(w[4].c_str()); n.b = atoi(w[5].c_str()); }
        else ok = false;
        nodes[id] = n;
    }
    // nodes are created bottom-up with increasing ids: evaluate in id order up to root
    double eval(int root, double x, double y, double z, std::vector<double>& scratch) const {
        scratch.resize(root + 1);
        for (auto& kv : nodes) {
            if (kv.first > root) break;
            const RefNode& n = kv.second;
            double v = 0;
            switch (n.kind) {
                case 0: v = n.c; break;
                case 1: v = x; break;
                case 2: v = y; break;
                case 3: v = z; break;
                case 4: {
                    double a = scratch[n.a];
                    switch (n.op) {
                        case Opcode::OP_NEG: v = -a; break;
                        case Opcode::OP_ABS: v = fabs(a); break;
                        case Opcode::OP_SQUARE: v = a * a; break;
                        case Opcode::OP_SQRT: v = sqrt(a); break;
                        default: v = NAN;
                    }
                    break;
                }
                case 5: {
                    double a = scratch[n.a], b = scratch[n.b];
                    switch (n.op) {
                        case Opcode::OP_ADD: v = a + b; break;
                        case Opcode::OP_SUB: v = a - b; break;
                        case Opcode::OP_MUL: v = a * b; break;
                        case Opcode::OP_DIV: v = a / b; break;
                        case Opcode::OP_MIN: v = a < b ? a : b; break;
                        case Opcode::OP_MAX: v = a > b ? a : b; break;
                        default: v = NAN;
                    }
                    break;
                }
            }
            scratch[kv.first] = v;
        }
        return scratch[root];
    }
    void clear() { nodes.clear(); ok = true; }
};

typedef std::vector<std::vector<Eigen::Vector2f>> Polys;

// winding number of a set of closed polylines around p (crossing rule; open polylines are
// closed by the implicit edge last->first so that the number is defined; closedness is
// reported separately)
static int winding(const Polys& cs, double px, double py) {
    int wn = 0;
    for (auto& c : cs) {
        size_t n = c.size();
        if (n < 2) continue;
        for (size_t i = 0; i < n; ++i) {
            double ax = c[i].x(), ay = c[i].y();
            double bx = c[(i + 1) % n].x(), by = c[(i + 1) % n].y();
            double left = (bx - ax) * (py - ay) - (px - ax) * (by - ay);
            if (ay <= py) { if (by > py && left > 0) ++wn; }
            else          { if (by <= py && left < 0) --wn; }
        }
    }
    return wn;
}

static void printPolys(const char* tag, const std::string& id, const Polys& cs) {
    std::cout << tag << " " << id << " " << cs.size();
    for (auto& c : cs) {
        std::cout << " " << c.size();
        for (auto& p : c) std::cout << " " << hex(p.x()) << " " << hex(p.y());
    }
    std::cout << "\n";
}

int main(int argc, char** argv) {
    if (argc < 2) { fprintf(stderr, "usage: contours --tables | <program>\n"); return 2; }
    if (std::string(argv[1]) == "--tables") return dumpTables();
    if (std::string(argv[1]) == "--loads") return dumpLoads();
    std::ifstream in(argv[1]);
    std::string line, caseid;
    TreeProg prog;
    RefProg ref;
    Polys last;          // contours of the last Contours::render
    int lastRoot = -1;
    double lastZ = 0;
    std::vector<double> scratch;
    std::cout << std::setprecision(17);

    while (std::getline(in, line)) {
        auto w = split(line);
        if (w.empty()) continue;
        forceRoundNearest();
        if (w[0] == "segs") {
            // segs <id> <V> <nchildren> {<n_k> a b ...}
            size_t V = strtoul(w[2].c_str(), nullptr, 10);
            size_t nc = strtoul(w[3].c_str(), nullptr, 10);
            std::atomic<uint32_t> counter(1);
            std::vector<PerThreadBRep<2>> breps;
            for (size_t k = 0; k < nc; ++k) breps.emplace_back(PerThreadBRep<2>(counter));
            for (size_t i = 1; i <= V; ++i) {
                auto& b = breps[(i * 7 + 3) % nc];
                // the index the b-rep is about to hand out is i: encode it as the coordinate
                uint32_t got = b.pushVertex(Eigen::Vector2f((float)i, 0.0f));
                if (got != i) { std::cout << "collect " << w[1] << " bad-index\n"; }
            }
            size_t pos = 4;
            for (size_t k = 0; k < nc && pos < w.size(); ++k) {
                size_t n = strtoul(w[pos++].c_str(), nullptr, 10);
                for (size_t j = 0; j < n && pos + 1 < w.size(); ++j) {
                    uint32_t a = strtoul(w[pos].c_str(), nullptr, 10), b = strtoul(w[pos + 1].c_str(), nullptr, 10);
                    pos += 2;
                    breps[k].branes.push_back({a, b});
                }
            }
            std::cout << "collect " << w[1] << " " << runCollect(breps) << "\n";
        } else if (w[0] == "case") {
            prog.clear(); ref.clear(); last.clear(); lastRoot = -1;
            caseid = w[1];
        } else if (w[0] == "n") {
            prog.exec(w);
            ref.exec(w);
        } else if (w[0] == "render") {
            const Tree& t = prog.at(w[1]);
            lastRoot = atoi(w[1].c_str());
            double lox = atof(w[2].c_str()), loy = atof(w[3].c_str()), hix = atof(w[4].c_str()), hiy = atof(w[5].c_str());
            double z = atof(w[6].c_str());
            lastZ = z;
            BRepSettings settings;
            settings.min_feature = atof(w[7].c_str());
            settings.max_err = atof(w[8].c_str());
            settings.workers = (unsigned)atoi(w[9].c_str());
            Region<2> region({lox, loy}, {hix, hiy}, Region<2>::Perp(z));
            int level = region.withResolution(settings.min_feature).level;
            const double h = std::max(hix - lox, hiy - loy) / (double)(1u << level);
            std::cout << "rcase " << caseid << " level " << level << " h " << h << " refok " << (ref.ok ? 1 : 0) << "\n";

            // (1) the official entry point
            auto cs = Contours::render(t, region, settings);
            if (!cs) { std::cout << "render " << caseid << " null\n"; continue; }
            last = cs->contours;
            printPolys("render", caseid, last);

            // (2) the same pipeline with the per-thread b-reps captured before Contours::collect
            {
                auto xtree = DCWorkerPool<2>::build(t, region, settings);
                auto cap = Dual<2>::walk<CapContourer>(xtree, settings);
                std::cout << "collect " << caseid << " " << cap->idx << "\n";
                std::cout << "capinfo " << caseid << " verts " << cap->nverts << " segs " << cap->segs.size() << "\n";
                printPolys("capture", caseid, cap->real.contours);
            }

            // (3) measurements on the official output: per vertex, reference value and the smallest
            // ladder radius (in units of h/8) at which the reference field changes sign
            static const double ladder[] = {0.125, 0.25, 0.5, 1, 1.5, 2, 3, 4, 6, 8, 12, 16};
            const int NL = sizeof(ladder) / sizeof(ladder[0]);
            std::vector<int> hist(NL + 2, 0);   // 0: f==0 at the vertex; 1..NL ladder; NL+1 none
            double worst = -1; Eigen::Vector2f worstV(0, 0); double worstF = 0;
            double maxabsf = 0;
            size_t nv = 0;
            for (auto& c : last) {
                for (auto& p : c) {
                    ++nv;
                    double f0 = ref.eval(lastRoot, p.x(), p.y(), z, scratch);
                    maxabsf = std::max(maxabsf, fabs(f0));
                    // (i) Newton / sphere-tracing walk towards the zero set: any point of the other
                    // sign at distance d certifies (IVT on the straight segment) a zero within d
                    double traced = 1e9;
                    if (f0 != 0) {
                        double qx = p.x(), qy = p.y();
                        for (int it = 0; it < 60; ++it) {
                            double f = ref.eval(lastRoot, qx, qy, z, scratch);
                            if (f == 0 || (f < 0) != (f0 < 0)) { traced = hypot(qx - p.x(), qy - p.y()) / h; break; }
                            const double e = 1e-4 * h;
                            double gx = (ref.eval(lastRoot, qx + e, qy, z, scratch) - ref.eval(lastRoot, qx - e, qy, z, scratch)) / (2 * e);
                            double gy = (ref.eval(lastRoot, qx, qy + e, z, scratch) - ref.eval(lastRoot, qx, qy - e, z, scratch)) / (2 * e);
                            double g2 = gx * gx + gy * gy;
                            if (!(g2 > 1e-12)) break;
                            const double gn = sqrt(g2);
                            const double d = std::min(fabs(f) / gn * 1.02 + 1e-6 * h, 2 * h);   // Newton estimate, capped
                            const double sgn = f > 0 ? -1 : 1;
                            qx += sgn * d * gx / gn;
                            qy += sgn * d * gy / gn;
                        }
                    }
                    // (ii) rings of 32 directions at the ladder radii
                    int bucket = NL + 1;
                    if (f0 == 0) bucket = 0;
                    else {
                        for (int l = 0; l < NL && bucket == NL + 1; ++l) {
                            double r = ladder[l] * h;
                            if (ladder[l] >= traced) { break; }
                            for (int a = 0; a < 32; ++a) {
                                double th = (a + 0.5 * (l & 1)) * (M_PI / 16);
                                double f1 = ref.eval(lastRoot, p.x() + r * cos(th), p.y() + r * sin(th), z, scratch);
                                if ((f1 < 0) != (f0 < 0) || f1 == 0) { bucket = l + 1; break; }
                            }
                        }
                        if (bucket == NL + 1 && traced < 1e8) {      // file the traced distance in its ladder bucket
                            for (int l = 0; l < NL; ++l) if (traced <= ladder[l]) { bucket = l + 1; break; }
                        }
                    }
                    hist[bucket]++;
                    double rr = bucket == 0 ? 0 : (bucket == NL + 1 ? 1e9 : std::min(traced, ladder[bucket - 1]));
                    if (rr > worst) { worst = rr; worstV = p; worstF = f0; }
                }
            }
            std::cout << "vdist " << caseid << " n " << nv << " worst " << worst << " at " << worstV.x() << " "
                      << worstV.y() << " f " << worstF << " maxabsf_over_h " << (maxabsf / h) << " hist";
            for (auto x : hist) std::cout << " " << x;
            std::cout << "\n";
        } else if (w[0] == "pt") {
            double x = atof(w[1].c_str()), y = atof(w[2].c_str());
            double f = ref.eval(lastRoot, x, y, lastZ, scratch);
            std::cout << "wn " << caseid << " " << x << " " << y << " " << f << " " << winding(last, x, y) << "\n";
        } else if (w[0] == "bpt") {
            double x = atof(w[1].c_str()), y = atof(w[2].c_str());
            std::cout << "bf " << caseid << " " << ref.eval(lastRoot, x, y, lastZ, scratch) << "\n";
        } else if (w[0] == "end") {
            std::cout << "end " << caseid << "\n";
        }
    }
    return 0;
}
