// C07 / C01 harness: runs tree-building programs through the real API and prints what it built
// and what it evaluates to.  Program lines (see harness/common.hpp TreeProg for `n` lines):
//   case <k>
//   n <id> ...                       build a node
//   dump <id>                        DAG of the node as it is now
//   eq <a> <b>                       Tree::eq
//   tape <id>                        Deck(tree): deck + tape dump, and the DAG of tree.optimized()
//   eval <id> nv (<varnode> <hex>)* np (<x> <y> <z>)*     one value() call per point
//   batch <id> nv (<varnode> <hex>)* np (<x> <y> <z>)*    one values(np) call, every slot
//   end
#include <fstream>
#include "common.hpp"
using namespace vh;

int main(int argc, char** argv) {
    if (argc < 2) { fprintf(stderr, "usage: treeprog <program>\n"); return 2; }
    std::ifstream in(argv[1]);
    std::string line;
    TreeProg prog;
    std::map<const TreeData*, int> varidx;

    auto refreshVars = [&]() {
        varidx.clear();
        for (size_t k = 0; k < prog.var_ids.size(); ++k)
            varidx[prog.nodes.at(prog.var_ids[k]).get()] = (int)k;
    };
    auto dump = [&](const Tree& t) {
        DagDumper d;
        d.var_names = &varidx;
        return d.dump(t);
    };
    auto parseVars = [&](const std::vector<std::string>& w, size_t& pos) {
        std::map<Tree::Id, float> vars;
        size_t nv = atoi(w[pos++].c_str());
        for (size_t k = 0; k < nv; ++k) {
            vars[prog.at(w[pos]).id()] = unhex(w[pos + 1]);
            pos += 2;
        }
        return vars;
    };

    while (std::getline(in, line)) {
        auto w = split(line);
        if (w.empty()) continue;
        forceRoundNearest();
        try {
            if (w[0] == "case") {
                prog.clear();
                std::cout << line << "\n";
            } else if (w[0] == "n") {
                prog.exec(w);
                refreshVars();
            } else if (w[0] == "dump") {
                std::cout << "dump " << w[1] << " " << dump(prog.at(w[1])) << "\n";
            } else if (w[0] == "eq") {
                std::cout << "eq " << w[1] << " " << w[2] << " " << (prog.at(w[1]).eq(prog.at(w[2])) ? 1 : 0) << "\n";
            } else if (w[0] == "tape") {
                const Tree& t = prog.at(w[1]);
                // optimise ONCE and build the deck from that tree (Deck::Deck's own optimized() call is then the
                // flag short-cut): the dumped tree, the node count and the deck all describe the same nodes
                Tree o = t.optimized();
                Deck d(o);
                std::cout << "tape-of " << w[1] << " " << dumpDeck(d, varidx) << "\n";
                std::cout << "tape-clauses " << w[1] << " " << dumpTape(*d.tape) << "\n";
                // number of distinct nodes Deck::Deck walked (= its first clause id)
                std::cout << "tape-nflat " << w[1] << " " << o.walk().size() << "\n";
                std::cout << "tape-opt " << w[1] << " " << dump(o) << "\n";
            } else if (w[0] == "eval" || w[0] == "batch") {
                const Tree& t = prog.at(w[1]);
                size_t pos = 3;           // w[2] == "nv"
                auto vars = parseVars(w, pos);
                ++pos;                    // skip the word "np"
                size_t np = atoi(w[pos].c_str());
                ++pos;
                std::vector<Eigen::Vector3f> pts;
                for (size_t k = 0; k < np; ++k) {
                    pts.emplace_back(unhex(w[pos]), unhex(w[pos + 1]), unhex(w[pos + 2]));
                    pos += 3;
                }
                ArrayEvaluator e(t, vars);
                std::cout << w[0] << " " << w[1] << " " << np;
                if (w[0] == "eval") {
                    for (auto& p : pts) { forceRoundNearest(); std::cout << " " << hex(e.value(p)); }
                } else {
                    // one batched call, then the same points one at a time through the SAME evaluator
                    // (a second evaluator would optimise the tree again, and operand order depends on
                    // pointer values)
                    for (size_t k = 0; k < np; ++k) e.set(pts[k], k);
                    std::vector<float> b(np);
                    { auto r = e.values(np); for (size_t k = 0; k < np; ++k) b[k] = r(k); }
                    for (size_t k = 0; k < np; ++k) {
                        forceRoundNearest();
                        std::cout << " " << hex(b[k]) << " " << hex(e.value(pts[k]));
                    }
                }
                std::cout << "\n";
            } else if (w[0] == "end") {
                std::cout << "end\n";
            }
        } catch (const std::exception& ex) {
            std::cout << "exception " << w[0] << " " << (w.size() > 1 ? w[1] : "") << " " << ex.what() << "\n";
        }
    }
    return 0;
}
