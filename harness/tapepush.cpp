// C05 harness: histories of nested interval / point specialisations on the real evaluators.
// Reads a program file (argv[1]), prints what the library did (tapes, slot values, point values).
#include <fstream>
#include "common.hpp"
using namespace vh;

int main(int argc, char** argv) {
    if (argc < 2) { fprintf(stderr, "usage: tapepush <program>\n"); return 2; }
    std::ifstream in(argv[1]);
    std::string line;
    TreeProg prog;
    std::shared_ptr<Deck> deck;
    std::unique_ptr<ArrayPeek> arr;
    std::unique_ptr<IntervalPeek> ivl;
    std::vector<Tape::Handle> stack;   // stack.back() = current tape
    std::map<const TreeData*, int> varidx;
    std::map<Tree::Id, float> varvals;

    auto slotsA = [&]() {
        std::ostringstream o;
        o << "pslots " << arr->rows();
        for (size_t k = 0; k < arr->rows(); ++k) o << " " << hex(arr->slot(k, 0));
        return o.str();
    };
    auto slotsI = [&]() {
        std::ostringstream o;
        o << "islots " << ivl->rows();
        for (size_t k = 0; k < ivl->rows(); ++k)
            o << " " << hex(ivl->slot(k).lower()) << " " << hex(ivl->slot(k).upper())
              << " " << hex(ivl->slot(k).isSafe() ? 1.0f : 0.0f);
        return o.str();
    };

    // Eigen kernel quirks of this build that are recorded C02 findings (not libfive logic): after a full
    // evaluation through the base tape, does any clause hit one?  pow(-inf, k) (= +inf here for odd k) and
    // exp(x) saturating to +inf just below the overflow threshold.  A specialised/full mismatch at such a point
    // is the same finding seen through tape pruning (the interval is right, the point kernel is not).
    auto quirk = [&]() {
        for (auto it = deck->tape->rbegin(); it != deck->tape->rend(); ++it) {
            if (it->op == Opcode::OP_POW && std::isinf(arr->slot(it->a, 0)) && arr->slot(it->a, 0) < 0) return 1;
            if (it->op == Opcode::OP_EXP && arr->slot(it->a, 0) > 88.3f && arr->slot(it->a, 0) < 88.8f) return 1;
        }
        return 0;
    };

    while (std::getline(in, line)) {
        auto w = split(line);
        if (w.empty()) continue;
        forceRoundNearest();
        if (w[0] == "case") {
            prog.clear(); stack.clear(); arr.reset(); ivl.reset(); deck.reset();
            varidx.clear(); varvals.clear();
            std::cout << line << "\n";
        } else if (w[0] == "n") {
            prog.exec(w);
        } else if (w[0] == "varval") {          // varval <node id> <hex>
            varvals[prog.at(w[1]).id()] = unhex(w[2]);
        } else if (w[0] == "root") {
            const Tree& t = prog.at(w[1]);
            for (size_t k = 0; k < prog.var_ids.size(); ++k)
                varidx[prog.nodes.at(prog.var_ids[k]).get()] = (int)k;
            deck = std::make_shared<Deck>(t);
            arr.reset(new ArrayPeek(deck, varvals));
            ivl.reset(new IntervalPeek(deck, varvals));
            stack.push_back(deck->tape);
            std::cout << dumpDeck(*deck, varidx, varvals) << "\n";
            std::cout << "base " << dumpTape(*deck->tape) << "\n";
        } else if (w[0] == "ipush") {
            Eigen::Vector3f lo(unhex(w[1]), unhex(w[2]), unhex(w[3]));
            Eigen::Vector3f hi(unhex(w[4]), unhex(w[5]), unhex(w[6]));
            auto r = ivl->intervalAndPush(lo, hi, stack.back());
            std::cout << "ipush " << w[1] << " " << w[2] << " " << w[3] << " " << w[4] << " " << w[5]
                      << " " << w[6] << " res " << hex(r.first.lower()) << " " << hex(r.first.upper())
                      << " " << (r.first.isSafe() ? 0 : 1) << " same " << (r.second == stack.back() ? 1 : 0) << "\n";
            std::cout << slotsI() << "\n";
            std::cout << "pushed " << dumpTape(*r.second) << "\n";
            stack.push_back(r.second);
        } else if (w[0] == "ppush") {
            Eigen::Vector3f p(unhex(w[1]), unhex(w[2]), unhex(w[3]));
            auto r = arr->valueAndPush(p, stack.back());
            std::cout << "ppush " << w[1] << " " << w[2] << " " << w[3] << " res " << hex(r.first)
                      << " same " << (r.second == stack.back() ? 1 : 0) << "\n";
            std::cout << slotsA() << "\n";
            std::cout << "pushed " << dumpTape(*r.second) << "\n";
            stack.push_back(r.second);
        } else if (w[0] == "pop") {
            if (stack.size() > 1) stack.pop_back();
            std::cout << "pop " << stack.size() << "\n";
        } else if (w[0] == "val") {
            Eigen::Vector3f p(unhex(w[1]), unhex(w[2]), unhex(w[3]));
            float cur = arr->value(p, *stack.back());
            forceRoundNearest();
            float base = arr->value(p, *deck->tape);
            bool anynan = false;
            for (auto it = deck->tape->rbegin(); it != deck->tape->rend(); ++it)
                anynan |= std::isnan(arr->slot(it->id, 0));
            std::cout << "val " << w[1] << " " << w[2] << " " << w[3] << " " << hex(cur) << " " << hex(base)
                      << " nan " << (anynan ? 1 : 0) << " q " << quirk() << "\n";
        } else if (w[0] == "vals") {            // vals <n> then n points: batch through current tape
            size_t n = atoi(w[1].c_str());
            for (size_t k = 0; k < n; ++k)
                arr->set(Eigen::Vector3f(unhex(w[2 + 3 * k]), unhex(w[3 + 3 * k]), unhex(w[4 + 3 * k])), k);
            std::vector<float> cur(n), base(n);
            { auto r = arr->values(n, *stack.back()); for (size_t k = 0; k < n; ++k) cur[k] = r(k); }
            { auto r = arr->values(n, *deck->tape); for (size_t k = 0; k < n; ++k) base[k] = r(k); }
            std::cout << "vals " << n;
            for (size_t k = 0; k < n; ++k) std::cout << " " << hex(cur[k]) << " " << hex(base[k]);
            std::cout << "\n";
        } else if (w[0] == "base") {            // getBase(point) from the current tape
            Eigen::Vector3f p(unhex(w[1]), unhex(w[2]), unhex(w[3]));
            auto b = stack.back()->getBase(p);
            int depth = -1;
            for (size_t k = 0; k < stack.size(); ++k) if (stack[k] == b) { depth = (int)k; break; }
            float viaB = arr->value(p, *b);
            forceRoundNearest();
            float base = arr->value(p, *deck->tape);
            bool anynan = false;
            for (auto it = deck->tape->rbegin(); it != deck->tape->rend(); ++it)
                anynan |= std::isnan(arr->slot(it->id, 0));
            std::cout << "base-at " << w[1] << " " << w[2] << " " << w[3] << " depth " << depth << " of "
                      << stack.size() << " " << hex(viaB) << " " << hex(base) << " q " << quirk() << " nan " << (anynan ? 1 : 0) << "\n";
        } else if (w[0] == "baser") {           // getBase(region) from the current tape, then k sample points
            Eigen::Vector3d lo(unhex(w[1]), unhex(w[2]), unhex(w[3]));
            Eigen::Vector3d hi(unhex(w[4]), unhex(w[5]), unhex(w[6]));
            auto b = stack.back()->getBase(Region<3>(lo, hi));
            int depth = -1;
            for (size_t k = 0; k < stack.size(); ++k) if (stack[k] == b) { depth = (int)k; break; }
            std::cout << "base-region " << w[1] << " " << w[2] << " " << w[3] << " " << w[4] << " " << w[5]
                      << " " << w[6] << " depth " << depth << " of " << stack.size();
            // property oracle: the returned tape agrees with the full expression at points of the query box
            size_t n = w.size() > 7 ? atoi(w[7].c_str()) : 0;
            std::cout << " pts " << n;
            for (size_t k = 0; k < n; ++k) {
                Eigen::Vector3f p(unhex(w[8 + 3 * k]), unhex(w[9 + 3 * k]), unhex(w[10 + 3 * k]));
                forceRoundNearest();
                float viaB = arr->value(p, *b);
                forceRoundNearest();
                float base = arr->value(p, *deck->tape);
                bool anynan = false;
                for (auto it = deck->tape->rbegin(); it != deck->tape->rend(); ++it)
                    anynan |= std::isnan(arr->slot(it->id, 0));
                std::cout << " " << hex(viaB) << " " << hex(base) << " " << ((anynan || quirk()) ? 1 : 0);
            }
            std::cout << "\n";
        } else if (w[0] == "types") {           // tape types and regions of the stack (innermost last)
            std::cout << "types " << stack.size();
            for (auto& t : stack) std::cout << " " << (int)TapePeek::typeOf(*t);
            std::cout << "\n";
        } else if (w[0] == "end") {
            std::cout << "end\n";
        }
    }
    return 0;
}
