// C15 harness: one long-lived Evaluator against a fresh Evaluator per query.
// Both are built from the SAME optimised tree (t.optimized() once): the optimiser orders
// commutative operands by pointer, so evaluators built from the unoptimised tree may legitimately
// resolve exact ties differently.  The fresh evaluator has its own Deck and replays the current
// chain of tape specialisations before answering.  Prints both answers; judging is done elsewhere.
#include <fstream>
#include <list>
#include "common.hpp"
using namespace vh;

struct EvalPeek : public Evaluator {
    EvalPeek(std::shared_ptr<Deck> d, const std::map<Tree::Id, float>& vars)
        : BaseEvaluator(d, vars), Evaluator(d, vars) {}
    size_t csimd() const { return count_simd; }
    size_t cactual() const { return count_actual; }
    bool clearVars() const { return clear_vars; }
    size_t frows() const { return f.cols(); }
    size_t fsize(size_t k) const { return f(k).size(); }
    // every lane of every leaf derivative row holds its constructor value (X/Y/Z unit rows, zero
    // rows for variables and constants): the feature walk rewrites them with the same values
    bool seedsOK() const {
        auto dk = BaseEvaluator::deck;
        auto rowOK = [&](size_t k, int one) {
            for (int r = 0; r < 3; ++r)
                for (size_t c = 0; c < N; ++c)
                    if (d(k)(r, c) != (r == one ? 1.0f : 0.0f)) return false;
            return true;
        };
        bool ok = rowOK(dk->X, 0) && rowOK(dk->Y, 1) && rowOK(dk->Z, 2);
        for (auto& v : dk->vars.left) ok = ok && rowOK(v.first, -1);
        for (auto& c : dk->constants) ok = ok && rowOK(c.first, -1);
        return ok;
    }
};

struct Spec { char kind; Eigen::Vector3f a, b; };   // 'i' box [a,b], 'p' point a

struct Ctx {
    std::shared_ptr<Deck> deck;
    std::unique_ptr<EvalPeek> ev;
    std::vector<Tape::Handle> stack;
    Tape::Handle tape() { return stack.back(); }
};

static std::string v3(const Eigen::Vector3f& v) { return hex(v.x()) + " " + hex(v.y()) + " " + hex(v.z()); }

int main(int argc, char** argv) {
    if (argc < 2) { fprintf(stderr, "usage: history <program>\n"); return 2; }
    std::ifstream in(argv[1]);
    std::string line;
    TreeProg prog;
    std::unique_ptr<Tree> opt;
    Ctx L;
    std::vector<Spec> specs;
    std::map<const TreeData*, int> varidx;
    std::map<Tree::Id, float> varvals;
    std::vector<Tree::Id> varids;

    auto build = [&](Ctx& c) {
        c.deck = std::make_shared<Deck>(*opt);
        c.ev.reset(new EvalPeek(c.deck, varvals));
        c.stack.clear();
        c.stack.push_back(c.deck->tape);
    };
    auto applySpec = [&](Ctx& c, const Spec& s) {
        if (s.kind == 'i') c.stack.push_back(c.ev->intervalAndPush(s.a, s.b, c.tape()).second);
        else c.stack.push_back(c.ev->valueAndPush(s.a, c.tape()).second);
    };
    // a fresh evaluator with the current variable values and the current specialisation chain
    auto fresh = [&](Ctx& c) {
        build(c);
        for (auto& s : specs) { forceRoundNearest(); applySpec(c, s); }
        forceRoundNearest();
    };
    auto pt = [&](const std::vector<std::string>& w, size_t k) {
        return Eigen::Vector3f(unhex(w[k]), unhex(w[k + 1]), unhex(w[k + 2]));
    };

    // one query on one context -> answer tokens
    auto answer = [&](Ctx& c, const std::vector<std::string>& w) -> std::string {
        std::ostringstream o;
        const std::string& q = w[0];
        if (q == "value") {
            o << hex(c.ev->value(pt(w, 1), *c.tape()));
        } else if (q == "values" || q == "derivs") {
            size_t n = atoi(w[1].c_str());
            for (size_t k = 0; k < n; ++k) c.ev->set(pt(w, 2 + 3 * k), k);
            if (q == "values") {
                auto r = c.ev->values(n, *c.tape());
                for (size_t k = 0; k < n; ++k) o << (k ? " " : "") << hex(r(k));
            } else {
                auto r = c.ev->derivs(n, *c.tape());
                for (size_t k = 0; k < n; ++k)
                    o << (k ? " " : "") << hex(r(0, k)) << " " << hex(r(1, k)) << " " << hex(r(2, k)) << " " << hex(r(3, k));
            }
        } else if (q == "deriv") {
            Eigen::Vector4f r = c.ev->deriv(pt(w, 1), *c.tape());
            o << hex(r(0)) << " " << hex(r(1)) << " " << hex(r(2)) << " " << hex(r(3));
        } else if (q == "features") {
            auto fs = c.ev->features(pt(w, 1), c.tape());
            o << fs.size();
            for (auto& f : fs) o << " " << v3(f);
        } else if (q == "isinside") {
            o << (c.ev->isInside(pt(w, 1), c.tape()) ? 1 : 0);
        } else if (q == "interval") {
            auto r = c.ev->eval(pt(w, 1), pt(w, 4), c.tape());
            o << hex(r.lower()) << " " << hex(r.upper()) << " " << (r.isSafe() ? 1 : 0);
        } else if (q == "jac") {
            auto g = c.ev->gradient(pt(w, 1), *c.tape());
            o << varids.size();
            for (auto id : varids) { auto it = g.find(id); o << " " << (it == g.end() ? "absent" : hex(it->second)); }
        } else if (q == "getbase") {
            auto b = c.tape()->getBase(pt(w, 1));
            int depth = -1;
            for (size_t k = 0; k < c.stack.size(); ++k) if (c.stack[k] == b) { depth = (int)k; break; }
            o << depth << " " << hex(c.ev->value(pt(w, 1), *b));
        }
        return o.str();
    };

    while (std::getline(in, line)) {
        auto w = split(line);
        if (w.empty()) continue;
        forceRoundNearest();
        if (w[0] == "case") {
            prog.clear(); opt.reset(); L = Ctx(); specs.clear(); varidx.clear(); varvals.clear(); varids.clear();
            std::cout << line << "\n";
        } else if (w[0] == "n") {
            prog.exec(w);
        } else if (w[0] == "varval") {
            varvals[prog.at(w[1]).id()] = unhex(w[2]);
        } else if (w[0] == "root") {
            for (size_t k = 0; k < prog.var_ids.size(); ++k) {
                varidx[prog.nodes.at(prog.var_ids[k]).get()] = (int)k;
                varids.push_back(prog.nodes.at(prog.var_ids[k]).id());
            }
            opt.reset(new Tree(prog.at(w[1]).optimized()));
            build(L);
            std::cout << dumpDeck(*L.deck, varidx, varvals) << "\n";
            std::cout << "base " << dumpTape(*L.deck->tape) << "\n";
        } else if (w[0] == "ipush" || w[0] == "ppush") {
            Spec s{w[0] == "ipush" ? 'i' : 'p', pt(w, 1), w[0] == "ipush" ? pt(w, 4) : pt(w, 1)};
            applySpec(L, s);
            specs.push_back(s);
            std::cout << "push " << w[0] << " depth " << L.stack.size() << " " << dumpTape(*L.tape()) << "\n";
        } else if (w[0] == "pop") {
            if (L.stack.size() > 1) {
                auto h = L.stack.back();
                L.stack.pop_back();
                specs.pop_back();
                if (std::find(L.stack.begin(), L.stack.end(), h) == L.stack.end())
                    L.deck->claim(std::move(h));         // recycle, as the renderers do
            }
            std::cout << "pop depth " << L.stack.size() << "\n";
        } else if (w[0] == "setvar") {          // setvar <var index> <hex>
            int idx = atoi(w[1].c_str());
            float val = unhex(w[2]);
            Tree::Id id = varids.at(idx);
            auto it = varvals.find(id);
            float old = it == varvals.end() ? 0.0f : it->second;
            bool changed = L.ev->updateVars({{id, val}});
            varvals[id] = val;
            std::cout << "setvar " << idx << " " << w[2] << " old " << hex(old) << " changed " << (changed ? 1 : 0) << "\n";
        } else if (w[0] == "end") {
            std::cout << "end\n";
        } else {
            std::string a = answer(L, w);
            std::cout << "q " << w[0] << " depth " << L.stack.size() << " csimd " << L.ev->csimd()
                      << " clear " << (L.ev->clearVars() ? 1 : 0) << " seedsok " << (L.ev->seedsOK() ? 1 : 0) << " L " << a;
            Ctx F;
            fresh(F);
            std::string b = answer(F, w);
            std::cout << " | F " << b << "\n";
            if (w[0] == "features" || w[0] == "isinside") {
                // the tape the feature walk ran over and the per-slot feature counts it left (fresh run)
                auto h = F.ev->valueAndPush(pt(w, 1), F.tape());
                std::cout << "fc " << dumpTape(*h.second) << " counts " << F.ev->frows();
                for (size_t k = 0; k < F.ev->frows(); ++k) std::cout << " " << F.ev->fsize(k);
                std::cout << "\n";
            }
        }
    }
    return 0;
}
