// C09 harness: Voxels / View::split / Heightmap::render on the real library.
// Reads a program file (argv[1]); prints what the library did plus the real evaluators' answers
// the Lean model needs as oracle lines (per-voxel-centre sign, interval state of every view of the
// recursion tree).  Dumb by design: no judging here.
//
// program:
//   case <id>
//   n <id> ...                       tree program lines (harness/common.hpp)
//   root <id>
//   vox <lo:3 hex> <hi:3 hex> <res:3 hex> <scalar-ctor 0|1> <prod:3 hex>   (prod is echoed only)
//   workers <w>...
//   end
// output (one case):
//   case <id>
//   N <ArrayEvaluator::N>
//   vox <sx sy sz> <lower:3> <upper:3> req <lo:3> <hi:3> <res:3> prod <3>
//   pts <axis> <n> <hex>...
//   split <A> <view> <view> <view>        view = cx cy cz sx sy sz px py pz  (p* = pts pointer offset)
//   f <sx*sy*sz chars 0/1>                index (i*sy + j)*sz + k ; 1 = value < 0 at the voxel centre
//   nanv <count>                          voxels whose value is NaN
//   brute <sx*sy ints>                    index i*sy + j ; topmost k with value < 0, or -1
//   run <w>
//   region <w> <idx> <view>
//   I <w> <view> <lower> <upper> <maybe_nan> <isFilled> <isEmpty> base <lower> <upper> <maybe_nan> taint <t>
//         (base = same box through the unspecialised tape; t = an ancestor's push took KEEP_B on a min/max
//          clause with a maybe-NaN operand, i.e. the tape this answer came from may disagree with the full one)
//   split 7 <view> <view> <view>          every ambiguous view of the recursion tree
//   P <w> <view> <ndiff> <ndiff-with-NaN-on-exactly-one-side> <taint> <bits>           leaf view (<= N voxels) whose pushed-tape signs differ from `f`;
//                                         bits index (di*sy' + dj)*sz' + dk within the view
//   depth <w> <sx*sy hex>                 index i*sy + j   (Heightmap::render(Tree, Voxels, abort, w))
//   end
#include <atomic>
#include <fstream>
#include <list>
#include "common.hpp"
#include "libfive/render/discrete/heightmap.hpp"
#include "libfive/render/discrete/voxels.hpp"
using namespace vh;

static const Voxels* g_vox = nullptr;
static std::string g_f_store;
static std::vector<float> g_vals;          // base-tape value of every voxel centre (index as `f`)

static std::string viewStr(const Voxels::View& v) {
    std::ostringstream o;
    o << v.corner.x() << " " << v.corner.y() << " " << v.corner.z() << " "
      << v.size.x() << " " << v.size.y() << " " << v.size.z();
    for (int a = 0; a < 3; ++a) o << " " << (long)(v.pts(a) - g_vox->pts[a].data());
    return o.str();
}

static std::pair<Voxels::View, Voxels::View> splitA(const Voxels::View& v, unsigned A) {
    switch (A) {
        case 1: return v.split<1>();
        case 2: return v.split<2>();
        case 3: return v.split<3>();
        case 4: return v.split<4>();
        case 5: return v.split<5>();
        case 6: return v.split<6>();
        default: return v.split<7>();
    }
}

static void printSplit(unsigned A, const Voxels::View& v) {
    auto p = splitA(v, A);
    std::cout << "split " << A << " " << viewStr(v) << " " << viewStr(p.first) << " " << viewStr(p.second) << "\n";
}

// probe View::split<A> for every mask on a chain of views
static void probe(const Voxels::View& v, int depth, unsigned salt) {
    for (unsigned A = 1; A <= 7; ++A) printSplit(A, v);
    if (depth >= 12) return;
    unsigned A = (salt * 5 + depth * 3) % 7 + 1;
    auto p = splitA(v, A);
    // follow one child per level (a chain), alternating sides; stop at empty views
    const Voxels::View& nxt = ((salt + depth) % 3 == 0) ? p.first : p.second;
    if (!nxt.empty() && !(nxt.size == v.size)) probe(nxt, depth + 1, salt + 1);
    else if (!p.first.empty() && !(p.first.size == v.size)) probe(p.first, depth + 1, salt + 2);
}

// every view of the recursion tree of Heightmap::recurse (superset of the views it evaluates:
// the depth-based skip is not replicated), with the tape pushed along the path as the code does
// access to the interval slots of the evaluator (protected member `i`)
struct EvalPeek : public Evaluator {
    explicit EvalPeek(std::shared_ptr<Deck> d)
        : BaseEvaluator(d, std::map<Tree::Id, float>()), Evaluator(d) {}
    const Interval& slot(size_t c) const { return i[c]; }
};

// would IntervalEvaluator::push *before fix c73cfff* have taken KEEP_B on a min/max clause with a maybe-NaN
// operand?  (diagnosis only: names the mechanism if pushed-tape differences ever come back)
static bool keepBOnMaybeNaN(const EvalPeek* e, const Tape& tape) {
    for (auto it = tape.rbegin(); it != tape.rend(); ++it) {
        if (it->a == it->b) continue;
        const Interval& a = e->slot(it->a);
        const Interval& b = e->slot(it->b);
        bool keepB = false;
        if (it->op == Opcode::OP_MAX) keepB = !(a.lower() > b.upper()) && (b.lower() > a.upper());
        else if (it->op == Opcode::OP_MIN) keepB = (a.lower() > b.upper());
        else continue;
        if (keepB && (!a.isSafe() || !b.isSafe())) return true;
    }
    return false;
}

static const std::string* g_f = nullptr;   // base-tape classification of every voxel (see `f` line)

static void explore(EvalPeek* e, const Tape::Handle& tape, const Voxels::View& r, unsigned w, long& budget, bool taint) {
    if (r.voxels() <= ArrayEvaluator::N) {
        // leaf: Heightmap::pixels evaluates these voxel centres through the *pushed* tape; report the
        // leaf if that classification differs from the base tape's (hypothesis of the model: one classifier)
        const int gsy = g_vox->pts[1].size(), gsz = g_vox->pts[2].size();
        size_t n = 0;
        for (int i = 0; i < r.size.x(); ++i)
            for (int j = 0; j < r.size.y(); ++j)
                for (int k = 0; k < r.size.z(); ++k)
                    e->set({r.pts.x()[i], r.pts.y()[j], r.pts.z()[k]}, n++);
        if (n == 0) return;
        auto out = e->values(n, *tape);
        std::string bits(n, '0');
        size_t q = 0, ndiff = 0, ndiff_nan = 0;
        for (int i = 0; i < r.size.x(); ++i)
            for (int j = 0; j < r.size.y(); ++j)
                for (int k = 0; k < r.size.z(); ++k, ++q) {
                    bits[q] = (out(q) < 0) ? '1' : '0';
                    size_t g = ((size_t)(r.corner.x() + i) * gsy + (r.corner.y() + j)) * gsz + (r.corner.z() + k);
                    if (bits[q] != (*g_f)[g]) {
                        ndiff++;
                        if (std::isnan(out(q)) != std::isnan(g_vals[g])) ndiff_nan++;   // NaN on exactly one side
                    }
                }
        if (ndiff) std::cout << "P " << w << " " << viewStr(r) << " " << ndiff << " " << ndiff_nan << " " << (taint ? 1 : 0)
                             << " " << bits << "\n";
        return;
    }
    if (--budget < 0) return;
    auto result = e->intervalAndPush(r.lower, r.upper, tape);
    Interval out = result.first;
    const bool taintBelow = taint || keepBOnMaybeNaN(e, *tape);
    std::cout << "I " << w << " " << viewStr(r) << " " << hex(out.lower()) << " " << hex(out.upper()) << " "
              << (out.isSafe() ? 0 : 1) << " " << (out.isFilled() ? 1 : 0) << " " << (out.isEmpty() ? 1 : 0);
    {   // the same box through the unspecialised tape (diagnosis only: did specialisation lose a maybe-NaN?)
        auto base = e->intervalAndPush(r.lower, r.upper, e->getDeck()->tape);
        std::cout << " base " << hex(base.first.lower()) << " " << hex(base.first.upper()) << " "
                  << (base.first.isSafe() ? 0 : 1) << " taint " << (taint ? 1 : 0) << "\n";
        if (base.second != e->getDeck()->tape) e->getDeck()->claim(std::move(base.second));
    }
    // same branch structure as Heightmap::recurse: fill iff safe && filled, prune iff empty, else split
    if (!(out.isSafe() && out.isFilled()) && !out.isEmpty()) {
        printSplit(7, r);
        auto rs = r.split();
        explore(e, result.second, rs.second, w, budget, taintBelow);
        explore(e, result.second, rs.first, w, budget, taintBelow);
    }
    if (result.second != tape) e->getDeck()->claim(std::move(result.second));
}

int main(int argc, char** argv) {
    if (argc < 2) { fprintf(stderr, "usage: heightmap <program>\n"); return 2; }
    std::ifstream in(argv[1]);
    std::string line;
    TreeProg prog;
    std::unique_ptr<Tree> opt;
    std::unique_ptr<Voxels> vox;

    while (std::getline(in, line)) {
        auto w = split(line);
        if (w.empty()) continue;
        forceRoundNearest();
        if (w[0] == "case") {
            prog.clear(); opt.reset(); vox.reset();
            std::cout << line << "\n";
            std::cout << "N " << ArrayEvaluator::N << "\n";      // the library's batch size (pixels() threshold)
        } else if (w[0] == "n") {
            prog.exec(w);
        } else if (w[0] == "root") {
            opt.reset(new Tree(prog.at(w[1]).optimized()));
        } else if (w[0] == "vox") {
            Eigen::Vector3f lo(unhex(w[1]), unhex(w[2]), unhex(w[3]));
            Eigen::Vector3f hi(unhex(w[4]), unhex(w[5]), unhex(w[6]));
            Eigen::Vector3f res(unhex(w[7]), unhex(w[8]), unhex(w[9]));
            if (w[10] == "1") vox.reset(new Voxels(lo, hi, res.x()));
            else vox.reset(new Voxels(lo, hi, res));
            g_vox = vox.get();
            std::cout << "vox " << vox->pts[0].size() << " " << vox->pts[1].size() << " " << vox->pts[2].size();
            for (int a = 0; a < 3; ++a) std::cout << " " << hex(vox->lower(a));
            for (int a = 0; a < 3; ++a) std::cout << " " << hex(vox->upper(a));
            std::cout << " req";
            for (int k = 1; k <= 9; ++k) std::cout << " " << w[k];
            std::cout << " prod " << w[11] << " " << w[12] << " " << w[13] << "\n";
            for (int a = 0; a < 3; ++a) {
                std::cout << "pts " << a << " " << vox->pts[a].size();
                for (float p : vox->pts[a]) std::cout << " " << hex(p);
                std::cout << "\n";
            }
            auto root = vox->view();
            std::cout << "rootview " << viewStr(root) << " " << root.voxels() << " " << (root.empty() ? 1 : 0)
                      << " " << (root.unit() ? 1 : 0) << "\n";
            probe(root, 0, (unsigned)(root.size.x() + 3 * root.size.y() + 5 * root.size.z()));

            // per-voxel sign and brute-force column scan with an independent array evaluator
            const int sx = root.size.x(), sy = root.size.y(), sz = root.size.z();
            ArrayEvaluator arr(*opt);
            std::string f((size_t)sx * sy * sz, '0');
            g_vals.assign((size_t)sx * sy * sz, 0.0f);
            std::vector<int> brute((size_t)sx * sy, -1);
            size_t nanv = 0;
            std::vector<size_t> pending;
            auto flush = [&]() {
                if (pending.empty()) return;
                forceRoundNearest();
                auto out = arr.values(pending.size());
                for (size_t q = 0; q < pending.size(); ++q) {
                    float val = out(q);
                    if (std::isnan(val)) nanv++;
                    if (val < 0) f[pending[q]] = '1';
                    g_vals[pending[q]] = val;
                }
                pending.clear();
            };
            for (int i = 0; i < sx; ++i)
                for (int j = 0; j < sy; ++j)
                    for (int k = 0; k < sz; ++k) {
                        arr.set(Eigen::Vector3f(vox->pts[0][i], vox->pts[1][j], vox->pts[2][k]), pending.size());
                        pending.push_back(((size_t)i * sy + j) * sz + k);
                        if (pending.size() == ArrayEvaluator::N) flush();
                    }
            flush();
            for (int i = 0; i < sx; ++i)
                for (int j = 0; j < sy; ++j)
                    for (int k = sz - 1; k >= 0; --k)
                        if (f[((size_t)i * sy + j) * sz + k] == '1') { brute[(size_t)i * sy + j] = k; break; }
            g_f_store = f;
            g_f = &g_f_store;
            std::cout << "f " << f << "\n";
            std::cout << "nanv " << nanv << "\n";
            std::cout << "brute";
            for (int b : brute) std::cout << " " << b;
            std::cout << "\n";
        } else if (w[0] == "workers") {
            for (size_t q = 1; q < w.size(); ++q) {
                unsigned nw = (unsigned)atoi(w[q].c_str());
                std::cout << "run " << nw << "\n";
                // the region list of Heightmap::render (same loop, real split)
                std::list<Voxels::View> rs = {vox->view()};
                while (rs.size() < nw && rs.front().size.head<2>().minCoeff() > 1) {
                    auto fr = rs.front();
                    rs.pop_front();
                    auto p = fr.split<Axis::X | Axis::Y>();
                    rs.push_back(p.first);
                    rs.push_back(p.second);
                }
                {
                    EvalPeek ev(std::make_shared<Deck>(*opt));
                    int idx = 0;
                    long budget = 200000;
                    for (auto& r : rs) std::cout << "region " << nw << " " << idx++ << " " << viewStr(r) << "\n";
                    for (auto& r : rs) { forceRoundNearest(); explore(&ev, ev.getDeck()->tape, r, nw, budget, false); }
                    if (budget < 0) std::cout << "budget-exhausted " << nw << "\n";
                }
                forceRoundNearest();
                std::atomic_bool abort(false);
                auto hm = Heightmap::render(*opt, *vox, abort, nw);
                std::cout << "depth " << nw;
                for (int i = 0; i < hm->depth.cols(); ++i)
                    for (int j = 0; j < hm->depth.rows(); ++j)
                        std::cout << " " << hex(hm->depth(j, i));
                std::cout << "\n";
            }
        } else if (w[0] == "end") {
            std::cout << "end\n";
        }
    }
    return 0;
}
