// C18 harness: calls the REAL C entry points of libfive_stdlib.h and prints what they built
// (DAG dumps, with parameters passed as free variables) or what the real ArrayEvaluator computes
// for them at given points (parameters passed as constants).  Deliberately dumb: no judging here.
//
// program file (argv[1]), one command per line:
//   case <k>
//   n <id> ...                         tree program line (harness/common.hpp TreeProg)
//   call <id> <fn> sym|num <tok>*      tok: s<node id> | i<int> | f<float hex>   (in signature order
//                                      per kind; in `sym` mode every tfloat is a fresh Tree::var())
//   dump <id>                          -> "dump <id> dag ..."
//   eval <id> <n> (<x> <y> <z>)*       -> "eval <id> <n> <value hex>*"
//   end
#include <fstream>
#include <functional>
#include <tuple>
#include "common.hpp"
#include "libfive_stdlib.h"

using libfive::Tree;
using libfive::TreeData;

struct A {
    std::vector<Tree> shapes, floats;
    std::vector<int> ints;
    size_t si = 0, fi = 0, ni = 0, k = 0;
    std::vector<std::string> sig;
    std::vector<Tree> keep;   // keeps argument trees alive during the call

    template <class T> T next();
};
template <> libfive_tree A::next<libfive_tree>() {
    const std::string& s = sig.at(k++);
    if (s == "s") return shapes.at(si++).get();
    if (s == "f") return floats.at(fi++).get();
    throw std::runtime_error("signature mismatch (tree)");
}
template <> tvec2 A::next<tvec2>() {
    if (sig.at(k++) != "v2") throw std::runtime_error("signature mismatch (v2)");
    tvec2 v;
    v.x = floats.at(fi++).get();
    v.y = floats.at(fi++).get();
    return v;
}
template <> tvec3 A::next<tvec3>() {
    if (sig.at(k++) != "v3") throw std::runtime_error("signature mismatch (v3)");
    tvec3 v;
    v.x = floats.at(fi++).get();
    v.y = floats.at(fi++).get();
    v.z = floats.at(fi++).get();
    return v;
}
template <> int A::next<int>() {
    if (sig.at(k++) != "i") throw std::runtime_error("signature mismatch (int)");
    return ints.at(ni++);
}

template <class... P> libfive_tree call(libfive_tree (*fn)(P...), A& a, const char* sig) {
    a.sig = vh::split(sig);
    a.k = 0;
    std::tuple<P...> t{a.template next<P>()...};   // braced init: evaluated left to right
    return std::apply(fn, t);
}

struct Entry {
    const char* sig;
    std::function<libfive_tree(A&)> fn;
};
#define FN(name, sig) {#name, Entry{sig, [](A& a) { return call(::name, a, sig); }}}

static const std::map<std::string, Entry>& table() {
    static const std::map<std::string, Entry> t = {
        // csg
        FN(_union, "s s"), FN(intersection, "s s"), FN(inverse, "s"), FN(difference, "s s"),
        FN(offset, "s f"), FN(clearance, "s s f"), FN(shell, "s f"), FN(blend_expt, "s s f"),
        FN(blend_expt_unit, "s s f"), FN(blend_rough, "s s f"), FN(blend_difference, "s s f f"),
        FN(morph, "s s f"), FN(loft, "s s f f"), FN(loft_between, "s s v3 v3"),
        // shapes
        FN(circle, "f v2"), FN(ring, "f f v2"), FN(polygon, "f i v2"), FN(rectangle, "v2 v2"),
        FN(rounded_rectangle, "v2 v2 f"), FN(rectangle_exact, "v2 v2"),
        FN(rectangle_centered_exact, "v2 v2"), FN(triangle, "v2 v2 v2"), FN(box_mitered, "v3 v3"),
        FN(box_mitered_centered, "v3 v3"), FN(box_exact_centered, "v3 v3"), FN(box_exact, "v3 v3"),
        FN(rounded_box, "v3 v3 f"), FN(sphere, "f v3"), FN(half_space, "v3 v3"),
        FN(cylinder_z, "f f v3"), FN(cone_ang_z, "f f v3"), FN(cone_z, "f f v3"),
        FN(pyramid_z, "v2 v2 f f"), FN(torus_z, "f f v3"), FN(gyroid, "v3 f"), FN(emptiness, ""),
        FN(array_x, "s i f"), FN(array_xy, "s i i v2"), FN(array_xyz, "s i i i v3"),
        FN(array_polar_z, "s i v2"), FN(extrude_z, "s f f"),
        // transforms
        FN(move, "s v3"), FN(reflect_x, "s f"), FN(reflect_y, "s f"), FN(reflect_z, "s f"),
        FN(reflect_xy, "s"), FN(reflect_yz, "s"), FN(reflect_xz, "s"), FN(symmetric_x, "s"),
        FN(symmetric_y, "s"), FN(symmetric_z, "s"), FN(scale_x, "s f f"), FN(scale_y, "s f f"),
        FN(scale_z, "s f f"), FN(scale_xyz, "s v3 v3"), FN(rotate_x, "s f v3"),
        FN(rotate_y, "s f v3"), FN(rotate_z, "s f v3"), FN(taper_x_y, "s v2 f f f"),
        FN(taper_xy_z, "s v3 f f f"), FN(shear_x_y, "s v2 f f f"), FN(repel, "s v3 f f"),
        FN(repel_x, "s v3 f f"), FN(repel_y, "s v3 f f"), FN(repel_z, "s v3 f f"),
        FN(repel_xy, "s v3 f f"), FN(repel_yz, "s v3 f f"), FN(repel_xz, "s v3 f f"),
        FN(attract, "s v3 f f"), FN(attract_x, "s v3 f f"), FN(attract_y, "s v3 f f"),
        FN(attract_z, "s v3 f f"), FN(attract_xy, "s v3 f f"), FN(attract_yz, "s v3 f f"),
        FN(attract_xz, "s v3 f f"), FN(revolve_y, "s f"), FN(twirl_x, "s f f v3"),
        FN(twirl_axis_x, "s f f v3"), FN(twirl_y, "s f f v3"), FN(twirl_axis_y, "s f f v3"),
        FN(twirl_z, "s f f v3"), FN(twirl_axis_z, "s f f v3"),
    };
    return t;
}

static size_t floatCount(const std::string& sig) {
    size_t n = 0;
    for (auto& s : vh::split(sig)) n += (s == "f") ? 1 : (s == "v2") ? 2 : (s == "v3") ? 3 : 0;
    return n;
}

int main(int argc, char** argv) {
    if (argc < 2) { fprintf(stderr, "usage: stdlib <program>\n"); return 2; }
    if (std::string(argv[1]) == "--list") {
        for (auto& e : table()) std::cout << e.first << " " << e.second.sig << "\n";
        return 0;
    }
    std::ifstream in(argv[1]);
    std::string line;
    vh::TreeProg prog;
    std::map<const TreeData*, int> varnum;
    std::vector<Tree> varkeep;
    size_t progvars = 0;

    while (std::getline(in, line)) {
        auto w = vh::split(line);
        if (w.empty()) continue;
        vh::forceRoundNearest();
        try {
            if (w[0] == "case") {
                prog.clear(); varnum.clear(); varkeep.clear(); progvars = 0;
                std::cout << line << "\n";
            } else if (w[0] == "n") {
                prog.exec(w);
                for (; progvars < prog.var_ids.size(); ++progvars) {
                    const Tree& v = prog.nodes.at(prog.var_ids[progvars]);
                    int k = (int)varnum.size();
                    varnum[v.get()] = k;
                }
            } else if (w[0] == "call") {
                int id = atoi(w[1].c_str());
                auto it = table().find(w[2]);
                if (it == table().end()) { std::cout << "call " << id << " " << w[2] << " unknown\n"; continue; }
                bool sym = w[3] == "sym";
                A a;
                for (size_t k = 4; k < w.size(); ++k) {
                    const std::string& t = w[k];
                    if (t[0] == 's') a.shapes.push_back(prog.at(t.substr(1)));
                    else if (t[0] == 'i') a.ints.push_back(atoi(t.c_str() + 1));
                    else if (t[0] == 'f') a.floats.push_back(Tree(vh::unhex(t.substr(1))));
                }
                int first = (int)varnum.size();
                size_t nf = floatCount(it->second.sig);
                if (sym) {
                    a.floats.clear();
                    for (size_t k = 0; k < nf; ++k) {
                        Tree v = Tree::var();
                        int num = (int)varnum.size();
                        varnum[v.get()] = num;
                        varkeep.push_back(v);
                        a.floats.push_back(v);
                    }
                }
                Tree r = Tree::reclaim(it->second.fn(a));
                prog.nodes.erase(id);
                prog.nodes.emplace(id, r);
                std::cout << "call " << id << " " << w[2] << " " << w[3] << " vars " << first << " " << (sym ? nf : 0)
                          << " ints " << a.ints.size();
                for (int i : a.ints) std::cout << " " << i;
                std::cout << " shapes " << a.shapes.size();
                for (size_t k = 4; k < w.size(); ++k) if (w[k][0] == 's') std::cout << " " << w[k].substr(1);
                std::cout << "\n";
            } else if (w[0] == "dump") {
                vh::DagDumper d;
                d.var_names = &varnum;
                std::cout << "dump " << w[1] << " " << d.dump(prog.at(w[1])) << "\n";
            } else if (w[0] == "eval") {
                const Tree& t = prog.at(w[1]);
                size_t n = atoi(w[2].c_str());
                libfive::ArrayEvaluator ev(t);
                std::cout << "eval " << w[1] << " " << n;
                for (size_t k = 0; k < n; ++k) {
                    Eigen::Vector3f p(vh::unhex(w[3 + 3 * k]), vh::unhex(w[4 + 3 * k]), vh::unhex(w[5 + 3 * k]));
                    vh::forceRoundNearest();
                    std::cout << " " << vh::hex(ev.value(p));
                }
                std::cout << "\n";
            } else if (w[0] == "end") {
                std::cout << "end\n";
            }
        } catch (const std::exception& e) {
            std::cout << "error " << w[0] << " " << (w.size() > 1 ? w[1] : "") << " " << e.what() << "\n";
        }
    }
    return 0;
}
