// C17 harness: runs the real `Solver::findRoot` in watchdogged child processes and prints what it
// returned, plus the real evaluator's answers (value / gradient at each accepted point, value at the
// backtracking trial points) so that the Lean model can be run with the REAL evaluator as its
// oracle.  The harness is dumb: it prints numbers, it takes no decision of the algorithm (the only
// arithmetic it replicates is `slope = sum d^2`, `step = r/slope`, `step /= 2`, `v - step*d`, whose
// results the driver re-derives and compares).
//
// input  (argv[1]; one case = lines between `case k` and `end`):
//   case <k> / n <id> ...  (tree program, see common.hpp) / root <id> / pos <hx> <hy> <hz>
//   var <node id> <hex init> <masked 0|1>        one per entry of the `vars` map handed to findRoot
//   gas <G> / sweep <S> / watchdog <seconds> / end
// output:
//   case <k>
//   vars <m> (<node id> <init> <masked> <indeck>)*          in Tree::Id (= std::map) order; index = position
//   user gas <G> ok r <hex> n <cnt> (<idx> <hex>)* | user gas <G> timeout <seconds>
//   chk  recomputed <hex>                                   value at the returned assignment (fresh evaluator)
//   ret <g> ok r <hex> n <cnt> (<idx> <hex>)* | ret <g> timeout     gas sweep g = 1..S (g-1 iterations)
//   it <k> r <hex> grad <cnt> (<idx> <hex>)* slope <hex> step <hex>    evaluator answers at accepted point k
//   tr <k> <j> step <hex> n <cnt> (<idx> <hex>)* r_ <hex>              trial j of the line search from point k
//   itend <k> jreal <j|-1> fixed <0|1>
//   end
#include <fstream>
#include <numeric>
#include <signal.h>
#include <sys/select.h>
#include <sys/wait.h>
#include <unistd.h>
#include "common.hpp"
#include "libfive/solve/solver.hpp"
using namespace vh;

struct VarSpec { int node; float init; bool masked; };

struct Result {
    bool ok = false;
    bool crashed = false;
    float r = 0;
    std::map<Tree::Id, float> sol;
};

static bool sameBits(float a, float b) { return f2b(a) == f2b(b); }

// Run the real findRoot (public evaluator overload: loads the initial values, removes masked
// variables) in a child process, on a fresh evaluator over the SAME compiled deck the parent uses for
// its recomputation (two Decks of one Tree may associate sums differently: that is C01/C07's business).
static Result guarded(const std::shared_ptr<Deck>& deck, const std::map<Tree::Id, float>& vars, const Eigen::Vector3f& pos,
                      const Solver::Mask& mask, unsigned gas, double timeout_s) {
    Result out;
    int fd[2];
    if (pipe(fd) != 0) { perror("pipe"); exit(3); }
    fflush(stdout);
    pid_t pid = fork();
    if (pid < 0) { perror("fork"); exit(3); }
    if (pid == 0) {
        close(fd[0]);
        alarm((unsigned)timeout_s + 5);        // belt and braces; the parent kills earlier
        forceRoundNearest();
        // The evaluator handed to findRoot holds OTHER variable values than the ones passed in `vars`
        // (an evaluator reused from an earlier solve): the evaluator overload must load every initial
        // value, masked ones included, before it iterates; the parent recomputes the residual with the
        // caller's values.
        std::map<Tree::Id, float> stale;
        for (auto& v : vars) stale[v.first] = v.second * 0.5f + 0.75f;
        JacobianEvaluator e(deck, stale);
        auto res = Solver::findRoot(e, deck->tape, vars, pos, mask, gas);
        std::vector<char> buf;
        auto put = [&](const void* p, size_t n) { buf.insert(buf.end(), (const char*)p, (const char*)p + n); };
        uint32_t n = (uint32_t)res.second.size();
        put(&res.first, 4); put(&n, 4);
        for (auto& v : res.second) { uint64_t id = (uint64_t)(uintptr_t)v.first; put(&id, 8); put(&v.second, 4); }
        size_t off = 0;
        while (off < buf.size()) { ssize_t k = write(fd[1], buf.data() + off, buf.size() - off); if (k <= 0) break; off += k; }
        _exit(0);
    }
    close(fd[1]);
    std::vector<char> buf;
    struct timespec t0; clock_gettime(CLOCK_MONOTONIC, &t0);
    bool timed_out = false;
    for (;;) {
        struct timespec now; clock_gettime(CLOCK_MONOTONIC, &now);
        double left = timeout_s - ((now.tv_sec - t0.tv_sec) + 1e-9 * (now.tv_nsec - t0.tv_nsec));
        if (left <= 0) { timed_out = true; break; }
        fd_set rs; FD_ZERO(&rs); FD_SET(fd[0], &rs);
        struct timeval tv; tv.tv_sec = (long)left; tv.tv_usec = (long)((left - (long)left) * 1e6);
        int s = select(fd[0] + 1, &rs, nullptr, nullptr, &tv);
        if (s < 0) { if (errno == EINTR) continue; break; }
        if (s == 0) { timed_out = true; break; }
        char tmp[4096];
        ssize_t k = read(fd[0], tmp, sizeof tmp);
        if (k <= 0) break;
        buf.insert(buf.end(), tmp, tmp + k);
    }
    close(fd[0]);
    if (timed_out) kill(pid, SIGKILL);
    int status = 0;
    waitpid(pid, &status, 0);
    if (timed_out) return out;
    if (!(WIFEXITED(status) && WEXITSTATUS(status) == 0) || buf.size() < 8) {
        // the child died (signal / exception): report as a crash, never as a timeout
        out.crashed = true;
        return out;
    }
    memcpy(&out.r, buf.data(), 4);
    uint32_t n; memcpy(&n, buf.data() + 4, 4);
    for (uint32_t i = 0; i < n && 8 + 12 * (i + 1) <= buf.size(); ++i) {
        uint64_t id; float v;
        memcpy(&id, buf.data() + 8 + 12 * i, 8); memcpy(&v, buf.data() + 16 + 12 * i, 4);
        out.sol[(Tree::Id)(uintptr_t)id] = v;
    }
    out.ok = true;
    return out;
}

int main(int argc, char** argv) {
    if (argc < 2) { fprintf(stderr, "usage: solver <cases>\n"); return 2; }
    std::ifstream in(argv[1]);
    std::string line;
    TreeProg prog;
    std::vector<VarSpec> specs;
    int root = -1; unsigned gas = 10; int sweep = 0; double watchdog = 5.0;
    Eigen::Vector3f pos(0, 0, 0);
    std::string caseid;
    setvbuf(stdout, nullptr, _IOLBF, 0);

    while (std::getline(in, line)) {
        auto w = split(line);
        if (w.empty()) continue;
        if (w[0] == "case") { prog.clear(); specs.clear(); root = -1; gas = 10; sweep = 0; watchdog = 5.0; pos = {0, 0, 0}; caseid = w[1]; }
        else if (w[0] == "n") prog.exec(w);
        else if (w[0] == "root") root = atoi(w[1].c_str());
        else if (w[0] == "pos") pos = Eigen::Vector3f(unhex(w[1]), unhex(w[2]), unhex(w[3]));
        else if (w[0] == "var") specs.push_back({atoi(w[1].c_str()), unhex(w[2]), w[3] == "1"});
        else if (w[0] == "gas") gas = (unsigned)strtoul(w[1].c_str(), nullptr, 10);
        else if (w[0] == "sweep") sweep = atoi(w[1].c_str());
        else if (w[0] == "watchdog") watchdog = atof(w[1].c_str());
        else if (w[0] == "end") {
            forceRoundNearest();
            const Tree& t = prog.nodes.at(root);
            std::map<Tree::Id, float> vars;
            std::map<Tree::Id, int> idx;
            Solver::Mask mask;
            std::map<Tree::Id, const VarSpec*> byid;
            for (auto& s : specs) {
                Tree::Id id = prog.nodes.at(s.node).id();
                vars[id] = s.init; byid[id] = &s;
                if (s.masked) mask.insert(id);
            }
            int k = 0;
            for (auto& v : vars) idx[v.first] = k++;
            auto deck = std::make_shared<Deck>(t);
            printf("case %s\nvars %zu", caseid.c_str(), vars.size());
            for (auto& v : vars)
                printf(" %d %s %d %d", byid[v.first]->node, hex(v.second).c_str(), byid[v.first]->masked ? 1 : 0,
                       deck->vars.right.find(v.first) != deck->vars.right.end() ? 1 : 0);
            printf("\n");

            auto printSol = [&](const Result& r) {
                printf("ok r %s n %zu", hex(r.r).c_str(), r.sol.size());
                for (auto& v : r.sol) printf(" %d %s", idx.count(v.first) ? idx[v.first] : -1, hex(v.second).c_str());
                printf("\n");
            };

            // ---- the user-level call (property oracle observes this one)
            Result user = guarded(deck, vars, pos, mask, gas, watchdog);
            printf("user gas %u ", gas);
            if (user.ok) {
                printSol(user);
                JacobianEvaluator eo(deck, vars);
                for (auto& v : vars) eo.setVar(v.first, v.second);
                for (auto& v : user.sol) eo.setVar(v.first, v.second);
                forceRoundNearest();
                printf("chk recomputed %s\n", hex(eo.value(pos, *deck->tape)).c_str());
            } else if (user.crashed) printf("crash\n");
            else printf("timeout %g\n", watchdog);

            // ---- gas sweep: ret(g) is the state after g-1 outer iterations
            if (sweep > 0) {
                JacobianEvaluator eo(deck, vars);
                std::map<Tree::Id, float> cur;           // unmasked vars at accepted point k
                for (auto& v : vars) if (!mask.count(v.first)) cur[v.first] = v.second;
                std::map<Tree::Id, float> ds;
                for (auto& v : cur) ds.insert({v.first, 0});
                double wd = user.ok ? watchdog : std::min(watchdog, 1.5);
                Result prev;
                Result r = guarded(deck, vars, pos, mask, 1u, wd);
                for (int g = 1; g <= sweep; ++g) {
                    printf("ret %d ", g);
                    if (!r.ok) { printf(r.crashed ? "crash\n" : "timeout\n"); break; }
                    printSol(r);
                    bool same = prev.ok && sameBits(prev.r, r.r) && prev.sol.size() == r.sol.size();
                    if (same) for (auto& v : r.sol) if (!sameBits(prev.sol.at(v.first), v.second)) same = false;
                    prev = r;
                    if (same) break;                      // stable: nothing more will happen
                    if (g == sweep) break;
                    // evaluator answers at accepted point k = g-1
                    int kk = g - 1;
                    cur = r.sol;
                    for (auto& v : vars) eo.setVar(v.first, v.second);
                    for (auto& v : cur) eo.setVar(v.first, v.second);
                    forceRoundNearest();
                    float rr = eo.value(pos, *deck->tape);
                    auto grad = eo.gradient(pos, *deck->tape);
                    printf("it %d r %s grad %zu", kk, hex(rr).c_str(), grad.size());
                    for (auto& d : grad) printf(" %d %s", idx.count(d.first) ? idx[d.first] : -1, hex(d.second).c_str());
                    for (auto& d : grad) { auto v = ds.find(d.first); if (v != ds.end()) v->second = d.second; }
                    const float slope = std::accumulate(ds.begin(), ds.end(), 0.0f,
                            [](float d, const decltype(ds)::value_type& itr) {
                                return d + powf(itr.second, 2.0f); });
                    printf(" slope %s step %s\n", hex(slope).c_str(), hex(rr / slope).c_str());
                    // what did the real code do with one more unit of gas?
                    Result nx = guarded(deck, vars, pos, mask, (unsigned)(g + 1), wd);
                    int jreal = -1, j = 0, fixedAt = -1;
                    for (float step = rr / slope; j < 420; step /= 2, ++j) {
                        std::map<Tree::Id, float> trial;
                        for (auto& v : cur) {
                            trial[v.first] = v.second - step * ds.at(v.first);
                            eo.setVar(v.first, trial[v.first]);
                        }
                        const float r_ = eo.value(pos, *deck->tape);
                        printf("tr %d %d step %s n %zu", kk, j, hex(step).c_str(), trial.size());
                        for (auto& v : trial) printf(" %d %s", idx[v.first], hex(v.second).c_str());
                        printf(" r_ %s\n", hex(r_).c_str());
                        if (jreal < 0 && nx.ok && sameBits(nx.r, r_)) {
                            bool eq = nx.sol.size() == trial.size();
                            if (eq) for (auto& v : trial) if (!sameBits(nx.sol.at(v.first), v.second)) eq = false;
                            if (eq) jreal = j;
                        }
                        if (fixedAt < 0 && sameBits(step / 2, step)) fixedAt = j;
                        if (jreal >= 0 && j >= jreal + 2) break;
                        if (fixedAt >= 0 && j >= fixedAt + 1) break;
                    }
                    printf("itend %d jreal %d fixed %d\n", kk, jreal, fixedAt >= 0 ? 1 : 0);
                    r = nx;
                }
            }
            printf("end\n");
            fflush(stdout);
        }
    }
    return 0;
}
