// C11 harness: raises the cancel flag at the k-th visit of a hook site during a real
// Mesh::render and prints what happened: the event trace (controlled mode: cooperative scheduler,
// the log is the real total order; free mode: real parallelism with seeded yields), whether the
// call returned, what it returned, and simple counts on the returned mesh (triangles, vertices,
// unpaired directed edges, invalid indices) next to the same counts for an uncancelled render.
//
//   cancel <casefile>
// case line: case <id> alg <dc|simplex|hybrid> workers <w> minfeat <f> maxerr <e> seed <s>
//                 mode <controlled|free> yield <p> site <name|none> a <a|-1> b <b|-1> k <k>
//                 log <0|1> region <6 numbers> shape <prefix expression>
#include <chrono>
#include <fstream>
#include <unordered_map>

#include "common.hpp"
#include "poolhook.hpp"
#include "poolshapes.hpp"

#include "libfive/render/brep/mesh.hpp"
#include "libfive/render/brep/region.hpp"
#include "libfive/render/brep/settings.hpp"

using namespace libfive;

struct MeshStats { long tris = -1, verts = -1, unpaired = -1, bad_index = -1, degenerate = -1; };

static MeshStats stats(const Mesh* m) {
    MeshStats s;
    if (!m) return s;
    s.tris = m->branes.size(); s.verts = m->verts.size(); s.unpaired = 0; s.bad_index = 0; s.degenerate = 0;
    std::unordered_map<uint64_t, long> cnt;
    for (auto& t : m->branes) {
        bool ok = true;
        for (int i = 0; i < 3; ++i) if (t[i] >= m->verts.size()) { ok = false; }
        if (!ok) { s.bad_index++; continue; }
        if (t[0] == t[1] || t[1] == t[2] || t[0] == t[2]) { s.degenerate++; }
        for (int i = 0; i < 3; ++i) {
            uint64_t a = t[i], b = t[(i + 1) % 3];
            if (a == b) continue;
            if (a < b) cnt[(a << 32) | b] += 1; else cnt[(b << 32) | a] -= 1;
        }
    }
    for (auto& kv : cnt) s.unpaired += std::labs(kv.second);
    return s;
}

static std::atomic<long> g_watch_deadline_ms{0};   // 0 = idle
static std::string g_current;

static long now_ms() {
    return std::chrono::duration_cast<std::chrono::milliseconds>(
        std::chrono::steady_clock::now().time_since_epoch()).count();
}

static void watchdog() {
    for (;;) {
        usleep(50000);
        long d = g_watch_deadline_ms.load();
        if (d && now_ms() > d) {
            printf("hang %s\n", g_current.c_str());
            fflush(stdout);
            _exit(3);
        }
    }
}

static std::map<std::string, MeshStats> g_ref;

static void runCase(const std::vector<std::string>& w, const std::string& line) {
    std::map<std::string, std::string> kv;
    size_t i = 2;
    std::vector<double> reg;
    std::vector<std::string> shape;
    while (i < w.size()) {
        if (w[i] == "region") { for (int k = 0; k < 6; ++k) reg.push_back(atof(w[i + 1 + k].c_str())); i += 7; }
        else if (w[i] == "shape") { shape.assign(w.begin() + i + 1, w.end()); break; }
        else { kv[w[i]] = w[i + 1]; i += 2; }
    }
    size_t pos = 0;
    Tree tree = shapes::parse(shape, pos);
    BRepSettings settings;
    settings.workers = atoi(kv["workers"].c_str());
    settings.min_feature = atof(kv["minfeat"].c_str());
    settings.max_err = atof(kv["maxerr"].c_str());
    const std::string alg = kv["alg"];
    settings.alg = alg == "dc" ? DUAL_CONTOURING : alg == "simplex" ? ISO_SIMPLEX : HYBRID;
    Region<3> r({reg[0], reg[1], reg[2]}, {reg[3], reg[4], reg[5]});

    ph::State& s = ph::st();
    // ---- reference: the same render without cancellation and without perturbation
    std::string shape_key = alg + "|" + kv["minfeat"] + "|" + kv["maxerr"] + "|";
    for (auto& t : shape) shape_key += t + " ";
    for (double v : reg) shape_key += std::to_string(v) + ",";
    if (!g_ref.count(shape_key)) {
        ph::reset(1);
        s.controlled = false; s.yield_p = 0; s.logging = false; s.cancel_site = -1; s.cancel_flag = nullptr;
        BRepSettings rs;
        rs.workers = 4; rs.min_feature = settings.min_feature; rs.max_err = settings.max_err; rs.alg = settings.alg;
        g_current = "reference for " + line;
        g_watch_deadline_ms.store(now_ms() + 60000);
        auto m = Mesh::render(tree, r, rs);
        g_watch_deadline_ms.store(0);
        g_ref[shape_key] = stats(m.get());
    }
    const MeshStats ref = g_ref[shape_key];

    ph::reset(strtoull(kv["seed"].c_str(), nullptr, 10));
    s.controlled = kv["mode"] == "controlled";
    s.yield_p = atof(kv["yield"].c_str());
    s.logging = kv["log"] == "1";
    s.log_loops = s.controlled;
    s.cancel_site = kv["site"] == "none" ? -1 : ph::site_of(kv["site"]);
    s.cancel_a = atoll(kv["a"].c_str());
    s.cancel_b = atoll(kv["b"].c_str());
    s.cancel_k = atol(kv["k"].c_str());
    s.cancel_flag = &settings.cancel;
    s.on_point = nullptr;

    printf("case %s alg %s workers %u mode %s site %s a %s b %s k %s\n", w[1].c_str(), alg.c_str(), settings.workers,
           kv["mode"].c_str(), kv["site"].c_str(), kv["a"].c_str(), kv["b"].c_str(), kv["k"].c_str());
    fflush(stdout);
    vh::forceRoundNearest();
    g_current = line;
    const long t0 = now_ms();
    g_watch_deadline_ms.store(t0 + 60000);
    auto m = Mesh::render(tree, r, settings);
    g_watch_deadline_ms.store(0);
    const long t1 = now_ms();
    s.cancel_site = -1; s.cancel_flag = nullptr;
    const bool raised = s.cancel_raised;
    const long visits = s.visits;
    s.logging = false;
    ph::dump_log(stdout);
    MeshStats ms = stats(m.get());
    printf("ret %s %ld %ld %ld %ld %ld\n", m ? "mesh" : "null", ms.tris, ms.verts, ms.unpaired, ms.bad_index, ms.degenerate);
    printf("ref %ld %ld %ld %ld %ld\n", ref.tris, ref.verts, ref.unpaired, ref.bad_index, ref.degenerate);
    printf("raised %d visits %ld elapsed_ms %ld\n", raised ? 1 : 0, visits, t1 - t0);
    printf("end\n");
    fflush(stdout);
}

int main(int argc, char** argv) {
    if (argc < 2) { fprintf(stderr, "usage: cancel <casefile>\n"); return 2; }
    ph::install();
    std::thread(watchdog).detach();
    std::ifstream in(argv[1]);
    std::string line;
    while (std::getline(in, line)) {
        auto w = vh::split(line);
        if (!w.empty() && w[0] == "case") runCase(w, line);
    }
    return 0;
}
