// C12 harness: observe the floating-point control state before and after library calls.
// One line per observation:  obs <kind> <op> <class> <init-mode> <round-before> <round-after> <ctl-before> <ctl-after>
#include <xmmintrin.h>
#include "common.hpp"
#include "libfive/render/brep/mesh.hpp"
#include "libfive/render/brep/settings.hpp"
#include "libfive/render/brep/region.hpp"
#include "libfive/render/discrete/heightmap.hpp"
#include "libfive/render/discrete/voxels.hpp"
#include "libfive/solve/solver.hpp"
using namespace vh;

struct Ctl { int round; unsigned mxcsr; unsigned x87; };
static Ctl getctl() {
    Ctl c;
    c.round = fegetround();
    c.mxcsr = _mm_getcsr() & 0x9fc0u;          // control bits (masks, FZ, DAZ); status flags ignored, RC reported via fegetround
    unsigned short cw; __asm__ __volatile__("fnstcw %0" : "=m"(cw)); c.x87 = cw & ~0x0c00u;
    return c;
}
static const char* modeName(int m) {
    switch (m) { case FE_TONEAREST: return "nearest"; case FE_DOWNWARD: return "down";
                 case FE_UPWARD: return "up"; case FE_TOWARDZERO: return "zero"; }
    return "?";
}
template <class F> static void observe(const std::string& kind, const std::string& op,
                                       const std::string& cls, int init, F f) {
    fesetround(init);
    Ctl b = getctl();
    f();
    Ctl a = getctl();
    printf("obs %s %s %s %s %s %s %x.%x %x.%x\n", kind.c_str(), op.c_str(), cls.c_str(), modeName(init),
           modeName(b.round), modeName(a.round), b.mxcsr, b.x87, a.mxcsr, a.x87);
    fesetround(FE_TONEAREST);
}

int main() {
    struct Cls { const char* name; float a, b; };
    const float inf = INFINITY, nan = NAN;
    std::vector<Cls> classes = {
        {"pos-pos", 1.5f, 2.0f}, {"neg-pos", -1.5f, 2.0f}, {"pos-neg", 1.5f, -3.0f}, {"neg-neg", -8.0f, -3.0f},
        {"neg-odd", -8.0f, 3.0f}, {"zero-pos", 0.0f, 3.0f}, {"pos-zero", 2.0f, 0.0f}, {"zero-zero", 0.0f, 0.0f},
        {"big-big", 1e30f, 1e30f}, {"tiny-pos", 1e-30f, 2.0f}, {"inf-pos", inf, 2.0f}, {"ninf-pos", -inf, 3.0f},
        {"pos-inf", 2.0f, inf}, {"nan-pos", nan, 2.0f}, {"half-half", 0.5f, 0.5f},
    };
    int inits[2] = {FE_TONEAREST, FE_DOWNWARD};
    for (int opi = 0; opi < Opcode::LAST_OP; ++opi) {
        auto op = (Opcode::Opcode)opi;
        int nargs = (int)Opcode::args(op);
        if (nargs != 1 && nargs != 2) continue;
        std::string opn = pname(op);
        for (auto& c : classes) for (int init : inits) {
            // the second operand of pow / nth-root must be a constant in well-formed trees
            const bool constB = (op == Opcode::OP_POW || op == Opcode::OP_NTH_ROOT);
            // documented domain: integer exponent (positive for nth-root)
            if (constB && (!std::isfinite(c.b) || c.b != std::floor(c.b) || fabsf(c.b) > 16)) continue;
            if (op == Opcode::OP_NTH_ROOT && c.b < 1) continue;
            auto mk = [&]() {
                Tree v = Tree::var();
                Tree t = nargs == 1 ? Tree::unary(op, Tree::X() + 0.0f * v)
                                    : Tree::binary(op, Tree::X() + 0.0f * v, constB ? Tree(c.b) : Tree::Y());
                return std::make_pair(t, v);
            };
            Eigen::Vector3f p(c.a, c.b, 0.0f);
            { auto tv = mk(); ArrayEvaluator e(tv.first);
              observe("point", opn, c.name, init, [&] { e.value(p); }); }
            { auto tv = mk(); ArrayEvaluator e(tv.first);
              observe("batch", opn, c.name, init, [&] { for (int k = 0; k < 37; ++k) e.set(p, k); e.values(37); }); }
            { auto tv = mk(); IntervalEvaluator e(tv.first);
              float lo = std::isnan(c.a) ? c.a : c.a - fabsf(c.a) * 0.5f - 0.25f, hi = std::isnan(c.a) ? c.a : c.a + 0.25f;
              observe("interval", opn, c.name, init, [&] {
                  e.eval(Eigen::Vector3f(lo, c.b, 0), Eigen::Vector3f(hi, c.b, 0)); });
              observe("interval-push", opn, c.name, init, [&] {
                  e.intervalAndPush(Eigen::Vector3f(lo, c.b, 0), Eigen::Vector3f(hi, c.b, 0)); }); }
            // operand ranges with exactly one / both bounds infinite (and a second operand range that is not a point)
            if (std::isfinite(c.a) && std::isfinite(c.b)) {
                auto tv = mk(); IntervalEvaluator e(tv.first);
                const float ylo = c.b - 0.5f, yhi = c.b + 0.5f;
                observe("interval-loinf", opn, c.name, init, [&] {
                    e.eval(Eigen::Vector3f(-inf, c.b, 0), Eigen::Vector3f(c.a, c.b, 0)); });
                observe("interval-hiinf", opn, c.name, init, [&] {
                    e.eval(Eigen::Vector3f(c.a, c.b, 0), Eigen::Vector3f(inf, c.b, 0)); });
                observe("interval-allinf", opn, c.name, init, [&] {
                    e.eval(Eigen::Vector3f(-inf, ylo, 0), Eigen::Vector3f(inf, yhi, 0)); });
                observe("interval-yloinf", opn, c.name, init, [&] {
                    e.eval(Eigen::Vector3f(c.a - 0.25f, -inf, 0), Eigen::Vector3f(c.a + 0.25f, c.b, 0)); });
                observe("interval-yhiinf", opn, c.name, init, [&] {
                    e.intervalAndPush(Eigen::Vector3f(c.a - 0.25f, c.b, 0), Eigen::Vector3f(c.a + 0.25f, inf, 0)); });
            }
            { auto tv = mk(); DerivArrayEvaluator e(tv.first);
              observe("deriv", opn, c.name, init, [&] { e.deriv(p); });
              observe("derivs", opn, c.name, init, [&] { for (int k = 0; k < 5; ++k) e.set(p, k); e.derivs(5); }); }
            { auto tv = mk(); FeatureEvaluator e(tv.first);
              observe("feature", opn, c.name, init, [&] { e.features(p); });
              observe("inside", opn, c.name, init, [&] { e.isInside(p); }); }
            { auto tv = mk(); JacobianEvaluator e(tv.first);
              observe("jacobian", opn, c.name, init, [&] { e.gradient(p); }); }
            // tree construction with constant folding
            observe("fold", opn, c.name, init, [&] {
                Tree t = nargs == 1 ? Tree::unary(op, Tree(c.a)) : Tree::binary(op, Tree(c.a), Tree(c.b));
                (void)t; });
            observe("optimize", opn, c.name, init, [&] { auto tv = mk(); tv.first.optimized(); });
        }
    }
    // rendering / solving entry points, on shapes that exercise the rounded interval kernels
    for (int init : inits) {
        Tree x = Tree::X(), y = Tree::Y(), z = Tree::Z();
        Tree sphere = sqrt(x * x + y * y + z * z) - 0.7f;
        Tree rooty = nth_root(x * x * x + y + z, Tree(3.0f)) - 0.3f;   // negative bases inside the region
        Tree shapes[2] = {sphere, max(sphere, rooty)};
        const char* names[2] = {"sphere", "cuberoot"};
        for (int s = 0; s < 2; ++s) {
            for (int alg = 0; alg < 3; ++alg) {
                BRepSettings st; st.min_feature = 0.25; st.workers = 2;
                st.alg = alg == 0 ? DUAL_CONTOURING : (alg == 1 ? ISO_SIMPLEX : HYBRID);
                observe(std::string("mesh") + char('0' + alg), names[s], "region1", init, [&] {
                    auto m = Mesh::render(shapes[s], Region<3>({-1, -1, -1}, {1, 1, 1}), st); });
            }
            observe("heightmap", names[s], "region1", init, [&] {
                std::atomic_bool abort(false);
                Voxels vox({-1, -1, -1}, {1, 1, 1}, 8.0f);
                auto h = Heightmap::render(shapes[s], vox, abort, 2); });
            observe("solver", names[s], "region1", init, [&] {
                Tree v = Tree::var();
                std::map<Tree::Id, float> vars = {{v.id(), 0.5f}};
                Solver::findRoot(shapes[s] + v, vars, {0.1f, 0.2f, 0.3f}); });
        }
    }
    return 0;
}
