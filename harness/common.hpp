// Shared helpers for the correspondence harnesses: line protocol, tree programs, dumps.
// Harnesses are deliberately dumb: they run the real library and print what it did.
#pragma once
#include <cfenv>
#include <cmath>
#include <cstdint>
#include <cstdio>
#include <cstring>
#include <iostream>
#include <map>
#include <sstream>
#include <string>
#include <vector>

#include "libfive.h"
#include "libfive/eval/deck.hpp"
#include "libfive/eval/eval_array.hpp"
#include "libfive/eval/eval_deriv_array.hpp"
#include "libfive/eval/eval_feature.hpp"
#include "libfive/eval/eval_interval.hpp"
#include "libfive/eval/eval_jacobian.hpp"
#include "libfive/eval/evaluator.hpp"
#include "libfive/eval/tape.hpp"
#include "libfive/tree/data.hpp"
#include "libfive/tree/opcode.hpp"
#include "libfive/tree/tree.hpp"

namespace vh {
using namespace libfive;

inline uint32_t f2b(float f) { uint32_t u; memcpy(&u, &f, 4); return u; }
inline float b2f(uint32_t u) { float f; memcpy(&f, &u, 4); return f; }
inline std::string hex(float f) { char b[16]; snprintf(b, sizeof b, "%08x", f2b(f)); return b; }
inline float unhex(const std::string& s) { return b2f((uint32_t)strtoul(s.c_str(), nullptr, 16)); }

inline std::vector<std::string> split(const std::string& line) {
    std::istringstream is(line);
    std::vector<std::string> out;
    std::string t;
    while (is >> t) out.push_back(t);
    return out;
}

// protocol opcode names: lower-case, OP_ stripped, '_' -> '-'   (matches Lean `Op.pname`)
inline std::string pname(Opcode::Opcode op) {
    static const std::map<int, std::string> names = {
#define OPCODE(s, i) {i, #s},
        OPCODES
#undef OPCODE
    };
    auto it = names.find(op);
    std::string s = it == names.end() ? "INVALID" : it->second;
    if (s.rfind("OP_", 0) == 0) s = s.substr(3);
    for (auto& c : s) { c = (c == '_') ? '-' : (char)tolower(c); }
    return s;
}
inline Opcode::Opcode opOf(const std::string& p) {
    for (int i = 0; i < Opcode::LAST_OP; ++i)
        if (pname((Opcode::Opcode)i) == p)
            return (Opcode::Opcode)i;
    return Opcode::INVALID;
}

// ------------------------------------------------------------------ tree programs
// n <id> const <hex> | x | y | z | var | un <op> <a> | bin <op> <a> <b> | remap <t> <x> <y> <z>
//        | apply <t> <var> <val> | opt <a> | flat <a> | cvars <a>
struct TreeProg {
    std::map<int, Tree> nodes;
    std::vector<int> var_ids;   // node ids of free variables in creation order

    const Tree& at(const std::string& s) const { return nodes.at(atoi(s.c_str())); }

    // returns false if the line is not a node line
    bool exec(const std::vector<std::string>& w) {
        if (w.size() < 3 || w[0] != "n") return false;
        int id = atoi(w[1].c_str());
        const std::string& k = w[2];
        if (k == "const") nodes.emplace(id, Tree(unhex(w[3])));
        else if (k == "x") nodes.emplace(id, Tree::X());
        else if (k == "y") nodes.emplace(id, Tree::Y());
        else if (k == "z") nodes.emplace(id, Tree::Z());
        else if (k == "var") { nodes.emplace(id, Tree::var()); var_ids.push_back(id); }
        else if (k == "un") nodes.emplace(id, Tree::unary(opOf(w[3]), at(w[4])));
        else if (k == "bin") nodes.emplace(id, Tree::binary(opOf(w[3]), at(w[4]), at(w[5])));
        else if (k == "remap") nodes.emplace(id, at(w[3]).remap(at(w[4]), at(w[5]), at(w[6])));
        else if (k == "apply") nodes.emplace(id, at(w[3]).apply(at(w[4]), at(w[5])));
        else if (k == "opt") nodes.emplace(id, at(w[3]).optimized());
        else if (k == "flat") nodes.emplace(id, at(w[3]).flatten());
        else if (k == "cvars") nodes.emplace(id, at(w[3]).with_const_vars());
        else return false;
        return true;
    }
    void clear() { nodes.clear(); var_ids.clear(); }
};

// Dump a tree as a DAG: "dag <root> <count> {<id> <kind> ...}" with node ids assigned by first
// visit (post-order), constants as bits, free variables by address-id.
struct DagDumper {
    std::map<const TreeData*, int> ids;
    std::ostringstream out;
    int count = 0;
    std::map<const TreeData*, int>* var_names = nullptr;   // optional: stable var numbering

    int visit(const TreeData* d) {
        auto it = ids.find(d);
        if (it != ids.end()) return it->second;
        std::ostringstream line;
        if (auto t = std::get_if<TreeNonaryOp>(d)) {
            int id = count++;
            ids[d] = id;
            if (t->op == Opcode::VAR_FREE) {
                int vn = -1;
                if (var_names) {
                    auto v = var_names->find(d);
                    vn = (v == var_names->end()) ? -1 : v->second;
                }
                out << " " << id << " var " << vn << " ;";
            } else {
                out << " " << id << " " << pname(t->op) << " ;";
            }
            return id;
        } else if (auto t = std::get_if<TreeConstant>(d)) {
            int id = count++;
            ids[d] = id;
            out << " " << id << " const " << hex(t->value) << " ;";
            return id;
        } else if (auto t = std::get_if<TreeUnaryOp>(d)) {
            int a = visit(t->lhs.get());
            int id = count++;
            ids[d] = id;
            out << " " << id << " un " << pname(t->op) << " " << a << " ;";
            return id;
        } else if (auto t = std::get_if<TreeBinaryOp>(d)) {
            int a = visit(t->lhs.get());
            int b = visit(t->rhs.get());
            int id = count++;
            ids[d] = id;
            out << " " << id << " bin " << pname(t->op) << " " << a << " " << b << " ;";
            return id;
        } else if (auto t = std::get_if<TreeRemap>(d)) {
            int x = visit(t->x.get()), y = visit(t->y.get()), z = visit(t->z.get());
            int b = visit(t->t.get());
            int id = count++;
            ids[d] = id;
            out << " " << id << " remap " << b << " " << x << " " << y << " " << z << " ;";
            return id;
        } else if (auto t = std::get_if<TreeApply>(d)) {
            int tg = visit(t->target.get()), v = visit(t->value.get()), b = visit(t->t.get());
            int id = count++;
            ids[d] = id;
            out << " " << id << " apply " << b << " " << tg << " " << v << " ;";
            return id;
        } else if (std::get_if<TreeOracle>(d)) {
            int id = count++;
            ids[d] = id;
            out << " " << id << " oracle ;";
            return id;
        } else {
            int id = count++;
            ids[d] = id;
            out << " " << id << " invalid ;";
            return id;
        }
    }
    std::string dump(const Tree& t) {
        int r = visit(t.get());
        std::ostringstream o;
        o << "dag " << r << " " << count << out.str();
        return o.str();
    }
};

// ------------------------------------------------------------------ tape / deck dumps
inline std::string dumpTape(const Tape& t) {
    std::ostringstream o;
    o << "tape " << t.root() << " " << (t.isTerminal() ? 1 : 0) << " " << t.size();
    // stored order is root-first: rbegin..rend is evaluation order, so print reversed-reversed
    std::vector<Clause> cl(t.rbegin(), t.rend());
    for (auto it = cl.rbegin(); it != cl.rend(); ++it)
        o << " " << pname(it->op) << " " << it->id << " " << it->a << " " << it->b;
    return o.str();
}

inline std::string dumpDeck(const Deck& d, const std::map<const TreeData*, int>& varidx,
                            const std::map<Tree::Id, float>& varvals = {}) {
    std::ostringstream o;
    o << "deck " << d.num_clauses << " " << d.X << " " << d.Y << " " << d.Z;
    o << " consts " << d.constants.size();
    for (auto& c : d.constants) o << " " << c.first << " " << hex(c.second);
    o << " vars " << d.vars.left.size();
    for (auto& v : d.vars.left) {
        auto it = varidx.find(static_cast<const TreeData*>(v.second));
        auto vv = varvals.find(v.second);
        o << " " << v.first << " " << (it == varidx.end() ? -1 : it->second) << " "
          << hex(vv == varvals.end() ? 0.0f : vv->second);
    }
    return o.str();
}

// Access to protected evaluator scratch (slot values), by derivation.
struct ArrayPeek : public ArrayEvaluator {
    ArrayPeek(std::shared_ptr<Deck> d, const std::map<Tree::Id, float>& vars)
        : BaseEvaluator(d, vars), ArrayEvaluator(d, vars) {}
    float slot(size_t clause, size_t idx) const { return v(clause, idx); }
    size_t rows() const { return v.rows(); }
};
struct IntervalPeek : public IntervalEvaluator {
    IntervalPeek(std::shared_ptr<Deck> d, const std::map<Tree::Id, float>& vars)
        : BaseEvaluator(d, vars), IntervalEvaluator(d, vars) {}
    const Interval& slot(size_t clause) const { return i[clause]; }
    size_t rows() const { return i.size(); }
};
// Access to protected Tape members through the pointer-to-member loophole.
struct TapePeek : public Tape {
    static Tape::Handle parentOf(const Tape& t) { return t.*(&TapePeek::parent); }
    static Tape::Type typeOf(const Tape& t) { return t.*(&TapePeek::type); }
};

inline void forceRoundNearest() { fesetround(FE_TONEAREST); }

}   // namespace vh
