// C16 harness helpers: an Oracle / OracleClause pair that wraps a Tree by delegating every query
// to the real evaluators of that tree (the idea of libfive/test/util/oracles.hpp), with an
// event log of the contexts it is bound to, and a long-double reference evaluator with running
// error bounds (value + forward-mode gradient) used as the comparison yardstick.
#pragma once
#include <algorithm>
#include <cfloat>
#include <mutex>
#include <set>

#include "common.hpp"
#include "libfive/oracle/oracle_clause.hpp"
#include "libfive/oracle/oracle_storage.hpp"
#include "libfive/oracle/transformed_oracle.hpp"

namespace vo {
using namespace libfive;
using namespace vh;

// ------------------------------------------------------------------ event log / registry
struct Log {
    std::mutex mu;
    bool enabled = false;
    std::vector<std::string> events;
    int nextInst = 0;
    int nextCtx = 1;            // 0 is never used, "-" is the null context
    std::vector<class WrapOracle*> live;
    std::set<int> keep;         // instances whose events are recorded (the main-path ones)
    static Log& get() { static Log l; return l; }
    void ev(int inst, const std::string& s) {
        std::lock_guard<std::mutex> g(mu);
        if (enabled && keep.count(inst)) events.push_back(s);
    }
};

struct WrapContext : public OracleContext {
    Tape::Handle tape;
    int id = 0;
    bool isTerminal() override { return tape->isTerminal(); }
};

inline std::string ctxName(OracleContext* c) {
    if (!c) return "-";
    auto w = dynamic_cast<WrapContext*>(c);
    return w ? ("c" + std::to_string(w->id)) : std::string("?");
}

// The oracle: every virtual is answered by the real evaluators of the wrapped tree, on the tape
// stored in the bound context (or the base tape when unbound).
class WrapOracle : public OracleStorage<> {
public:
    explicit WrapOracle(const Tree& t) : ev(t) {
        auto& L = Log::get();
        std::lock_guard<std::mutex> g(L.mu);
        inst = L.nextInst++;
        L.live.push_back(this);
    }
    ~WrapOracle() override {
        auto& L = Log::get();
        std::lock_guard<std::mutex> g(L.mu);
        L.live.erase(std::remove(L.live.begin(), L.live.end(), this), L.live.end());
    }

    WrapContext* ctx() const { return dynamic_cast<WrapContext*>(context.get()); }
    bool bound() const { return context.get() != nullptr; }
    Tape::Handle tapeOf() { auto c = ctx(); return c ? c->tape : ev.getDeck()->tape; }
    void note(const char* kind) {
        if (quiet) return;
        Log::get().ev(inst, "wev " + std::to_string(inst) + " " + kind + " " + ctxName(context.get()));
    }
    Eigen::Vector3f pt(size_t i) const { return points.col(i).matrix(); }

    void evalInterval(Interval& out) override {
        note("interval");
        out = ev.eval(lower, upper, tapeOf());
    }

    std::shared_ptr<OracleContext> push(Tape::Type t) override {
        if (t != Tape::INTERVAL) {
            Log::get().ev(inst, "wev " + std::to_string(inst) + " push " + std::to_string((int)t) + " " +
                          ctxName(context.get()) + " -");
            return nullptr;
        }
        auto out = std::make_shared<WrapContext>();
        out->tape = ev.push(tapeOf());
        {
            auto& L = Log::get();
            std::lock_guard<std::mutex> g(L.mu);
            out->id = L.nextCtx++;
        }
        Log::get().ev(inst, "wev " + std::to_string(inst) + " push " + std::to_string((int)t) + " " +
                      ctxName(context.get()) + " c" + std::to_string(out->id));
        return out;
    }

    void evalPoint(float& out, size_t index = 0) override {
        note("point");
        out = ev.value(pt(index), *tapeOf());
    }

    void evalArray(Eigen::Block<Eigen::Array<float, Eigen::Dynamic, LIBFIVE_EVAL_ARRAY_SIZE, Eigen::RowMajor>,
                                1, Eigen::Dynamic> out) override {
        note("array");
        const size_t count = out.cols();
        for (size_t i = 0; i < count; ++i) ev.set(pt(i), i);
        out = ev.values(count, *tapeOf());
    }

    void checkAmbiguous(Eigen::Block<Eigen::Array<bool, 1, LIBFIVE_EVAL_ARRAY_SIZE>, 1, Eigen::Dynamic> out) override {
        note("ambig");
        out = out || ev.getAmbiguous(out.cols(), *tapeOf());
    }

    void evalDerivs(Eigen::Block<Eigen::Array<float, 3, Eigen::Dynamic>, 3, 1, true> out, size_t index = 0) override {
        note("deriv");
        if (inheritDerivs()) {
            // an oracle that supplies no gradient code of its own: the stock OracleStorage implementation
            // (slot 0 borrowed for an evalFeatures call, then restored)
            const bool q = quiet; quiet = true;
            OracleStorage<>::evalDerivs(out, index);
            quiet = q;
            return;
        }
        Eigen::Vector4f d = ev.deriv(pt(index), *tapeOf());
        out = d.head<3>().array();
    }

    void evalDerivArray(Eigen::Block<Eigen::Array<float, 3, LIBFIVE_EVAL_ARRAY_SIZE>, 3, Eigen::Dynamic, true> out) override {
        note("derivs");
        if (inheritDerivs()) {
            const bool q = quiet; quiet = true;
            Oracle::evalDerivArray(out);     // the default: evalDerivs per slot
            quiet = q;
            return;
        }
        const size_t count = out.cols();
        for (size_t i = 0; i < count; ++i) ev.set(pt(i), i);
        auto ds = ev.derivs(count, *tapeOf());
        for (size_t i = 0; i < count; ++i)
            for (int r = 0; r < 3; ++r) out(r, i) = ds(r, i);
    }

    void evalFeatures(boost::container::small_vector<Feature, 4>& out) override {
        note("features");
        out = ev.features_(pt(0), tapeOf());
    }

    /*  per case: gradients through the inherited OracleStorage::evalDerivs / Oracle::evalDerivArray  */
    static bool& inheritDerivs() { static bool b = false; return b; }

    Evaluator ev;
    int inst = -1;
    bool quiet = false;
};

class WrapOracleClause : public OracleClause {
public:
    // The tree is optimised ONCE here: the mesher hands tapes (and with them oracle contexts) from
    // one worker's evaluator to another's, which is only meaningful if every oracle instance of this
    // clause numbers its clauses identically.  Deck(t) re-optimises, which is the identity on an
    // already optimised tree; optimising the raw tree per instance would sort commutative operands
    // by (fresh) pointer values and give each instance its own numbering.
    explicit WrapOracleClause(const Tree& t) : t(t.optimized()) {}
    std::unique_ptr<Oracle> getOracle() const override { return std::make_unique<WrapOracle>(t); }
    std::string name() const override { return "WrapOracle"; }
    Tree t;
};

inline Tree wrapTree(const Tree& t) {
    return Tree(std::unique_ptr<const OracleClause>(new WrapOracleClause(t)));
}

// ------------------------------------------------------------------ peeking
// protected Oracle::context, via the pointer-to-member loophole
struct OraclePeek : public Oracle {
    static std::shared_ptr<OracleContext> ctxOf(Oracle& o) { return o.*(&OraclePeek::context); }
};
struct TapeCtxPeek : public Tape {
    static size_t nctx(const Tape& t) { return (t.*(&TapeCtxPeek::contexts)).size(); }
    static OracleContext* ctx(const Tape& t, size_t i) { return (t.*(&TapeCtxPeek::contexts))[i].get(); }
};
// private TransformedOracle::underlying, via explicit-instantiation access
template <typename Tag, typename Tag::type M>
struct Rob { friend typename Tag::type robGet(Tag) { return M; } };
struct TOUnderlying {
    typedef const std::unique_ptr<Oracle> TransformedOracle::*type;
    friend type robGet(TOUnderlying);
};
template struct Rob<TOUnderlying, &TransformedOracle::underlying>;
inline Oracle* underlyingOf(TransformedOracle& t) { return (t.*robGet(TOUnderlying())).get(); }

// ------------------------------------------------------------------ reference evaluation
// value with a running bound on the error a single-precision evaluation of the same formula
// (in any association order the optimiser may pick) is expected to stay within.
static const long double U = 1.1920928955078125e-07L;   // 2^-23
struct EF {
    long double v = 0, e = 0;
};
inline EF mk(long double v, long double e) {
    if (std::isnan(v) || std::isnan(e) || std::fabs(v) > (long double)FLT_MAX) e = INFINITY;
    return {v, e};
}
inline EF rnd(EF a, long double k = 1) { a.e += k * U * std::fabs(a.v) + 3e-45L; return mk(a.v, a.e); }
inline EF cst(long double v) { return {v, 0}; }
inline EF operator+(EF a, EF b) { return rnd(mk(a.v + b.v, a.e + b.e)); }
inline EF operator-(EF a, EF b) { return rnd(mk(a.v - b.v, a.e + b.e)); }
inline EF neg(EF a) { return {-a.v, a.e}; }
inline EF operator*(EF a, EF b) {
    return rnd(mk(a.v * b.v, std::fabs(a.v) * b.e + std::fabs(b.v) * a.e + a.e * b.e));
}
inline EF operator/(EF a, EF b) {
    if (!(std::fabs(b.v) > b.e)) return {a.v / b.v, INFINITY};
    long double q = a.v / b.v;
    return rnd(mk(q, (a.e + std::fabs(q) * b.e) / (std::fabs(b.v) - b.e)));
}
inline EF absE(EF a) { return {std::fabs(a.v), a.e}; }
inline EF sqrtE(EF a) {
    if (!(a.v - a.e > 0)) return {std::sqrt(a.v), INFINITY};
    return rnd(mk(std::sqrt(a.v), a.e / (2 * std::sqrt(a.v - a.e))), 4);
}
inline EF sinE(EF a) { if (std::fabs(a.v) > 1e4L) return {std::sin(a.v), INFINITY}; return mk(std::sin(a.v), a.e + 8 * U); }
inline EF cosE(EF a) { if (std::fabs(a.v) > 1e4L) return {std::cos(a.v), INFINITY}; return mk(std::cos(a.v), a.e + 8 * U); }
inline EF atanE(EF a) { return rnd(mk(std::atan(a.v), a.e), 8); }
inline EF expE(EF a) {
    long double v = std::exp(a.v);
    if (a.v > 80 || a.v < -80) return {v, INFINITY};
    return rnd(mk(v, v * std::expm1(a.e)), 8);
}
inline EF tanE(EF a) {
    long double v = std::tan(a.v);
    long double s = 1 + v * v;
    if (std::fabs(a.v) > 1e4L || s * (a.e + 8 * U) > 0.05L) return {v, INFINITY};
    return rnd(mk(v, 2 * s * a.e), 16 * (1 + std::fabs(v)));
}
inline EF logE(EF a) {
    if (!(a.v - a.e > 0)) return {std::log(a.v), INFINITY};
    long double v = std::log(a.v);
    return mk(v, a.e / (a.v - a.e) + 8 * U * std::max(1.0L, std::fabs(v)));
}
inline EF asinE(EF a, bool isacos) {
    long double m = std::fabs(a.v) + a.e;
    long double v = isacos ? std::acos(a.v) : std::asin(a.v);
    if (!(m < 1)) return {v, INFINITY};
    return mk(v, a.e / std::sqrt(1 - m * m) + 8 * U * 4);
}
inline EF powiE(EF a, int k) {          // integer exponent
    long double v = std::pow(a.v, (long double)k);
    if (k == 0) return cst(1);
    long double m = std::fabs(a.v) + a.e;
    long double dv;
    if (k > 0) dv = std::fabs((long double)k) * std::pow(m, (long double)(k - 1));
    else {
        if (!(std::fabs(a.v) > a.e)) return {v, INFINITY};
        dv = std::fabs((long double)k) * std::pow(std::fabs(a.v) - a.e, (long double)(k - 1));
    }
    return rnd(mk(v, dv * a.e), 16);
}

struct Dual {
    EF v;
    EF d[3];
    bool amb = false;      // gradient not unique here (tie of min/max, kink of abs)
};
inline Dual dconst(long double c) { Dual r; r.v = cst(c); return r; }
inline Dual dlin(Dual a, EF fa, const EF& val) {       // val with derivative fa * a'
    Dual r; r.v = val; r.amb = a.amb;
    for (int i = 0; i < 3; ++i) r.d[i] = fa * a.d[i];
    return r;
}

struct RefEval {
    const std::map<const TreeData*, float>* vars = nullptr;
    struct Env { Dual x, y, z; std::map<const TreeData*, Dual> memo; };
    bool unsupported = false;
    bool coordUndefined = false;
    bool sawNan = false;        // some sub-expression is NaN at this point (sticky per at())

    static Dual unb(long double v) { Dual r; r.v = {v, INFINITY}; for (auto& d : r.d) d = {0, INFINITY}; return r; }

    Dual un(Opcode::Opcode op, const Dual& a) {
        switch (op) {
            case Opcode::OP_NEG: { Dual r = a; r.v = neg(a.v); for (auto& d : r.d) d = neg(d); return r; }
            case Opcode::OP_ABS: {
                Dual r = a; r.v = absE(a.v);
                if (std::fabs(a.v.v) <= a.v.e) r.amb = true;
                if (a.v.v < 0) for (auto& d : r.d) d = neg(d);
                return r;
            }
            case Opcode::OP_SQUARE: return dlin(a, cst(2) * a.v, a.v * a.v);
            case Opcode::OP_SQRT: { EF s = sqrtE(a.v); return dlin(a, cst(1) / (cst(2) * s), s); }
            case Opcode::OP_RECIP: { EF r = cst(1) / a.v; return dlin(a, neg(r * r), r); }
            case Opcode::OP_SIN: return dlin(a, cosE(a.v), sinE(a.v));
            case Opcode::OP_COS: return dlin(a, neg(sinE(a.v)), cosE(a.v));
            case Opcode::OP_TAN: { EF t = tanE(a.v); return dlin(a, cst(1) + t * t, t); }
            case Opcode::OP_ATAN: return dlin(a, cst(1) / (cst(1) + a.v * a.v), atanE(a.v));
            case Opcode::OP_EXP: { EF e = expE(a.v); return dlin(a, e, e); }
            case Opcode::OP_LOG: return dlin(a, cst(1) / a.v, logE(a.v));
            case Opcode::OP_ASIN: return dlin(a, cst(1) / sqrtE(cst(1) - a.v * a.v), asinE(a.v, false));
            case Opcode::OP_ACOS: return dlin(a, neg(cst(1) / sqrtE(cst(1) - a.v * a.v)), asinE(a.v, true));
            case Opcode::CONST_VAR: { Dual r; r.v = a.v; return r; }
            default: unsupported = true; return unb(NAN);
        }
    }
    Dual bin(Opcode::Opcode op, const Dual& a, const Dual& b, const TreeData* rhsNode) {
        Dual r;
        r.amb = a.amb || b.amb;
        switch (op) {
            case Opcode::OP_ADD: r.v = a.v + b.v; for (int i = 0; i < 3; ++i) r.d[i] = a.d[i] + b.d[i]; return r;
            case Opcode::OP_SUB: r.v = a.v - b.v; for (int i = 0; i < 3; ++i) r.d[i] = a.d[i] - b.d[i]; return r;
            case Opcode::OP_MUL: r.v = a.v * b.v; for (int i = 0; i < 3; ++i) r.d[i] = a.d[i] * b.v + a.v * b.d[i]; return r;
            case Opcode::OP_DIV: r.v = a.v / b.v; for (int i = 0; i < 3; ++i) r.d[i] = (a.d[i] - r.v * b.d[i]) / b.v; return r;
            case Opcode::OP_MIN: case Opcode::OP_MAX: {
                bool tie = std::fabs(a.v.v - b.v.v) <= a.v.e + b.v.e;
                bool pickA = (op == Opcode::OP_MIN) ? (a.v.v <= b.v.v) : (a.v.v >= b.v.v);
                if (std::isnan(a.v.v) || std::isnan(b.v.v)) return unb(NAN);
                r = pickA ? a : b;
                r.v.e = std::max(a.v.e, b.v.e);
                r.amb = a.amb || b.amb || tie;
                return r;
            }
            case Opcode::OP_POW: case Opcode::OP_NTH_ROOT: {
                auto c = std::get_if<TreeConstant>(rhsNode);
                if (!c || c->value != std::floor(c->value) || std::fabs(c->value) > 16) { unsupported = true; return unb(NAN); }
                int k = (int)c->value;
                if (op == Opcode::OP_POW) {
                    EF v = powiE(a.v, k);
                    EF dv = cst(k) * powiE(a.v, k - 1);
                    return dlin(a, dv, v);
                } else {
                    if (k < 1 || !(a.v.v - a.v.e > 0)) return unb(std::pow(a.v.v, 1.0L / k));
                    long double v = std::pow(a.v.v, 1.0L / k);
                    EF ve = rnd(mk(v, a.v.e * v / (k * (a.v.v - a.v.e))), 16);
                    return dlin(a, ve / (cst(k) * a.v), ve);
                }
            }
            case Opcode::OP_NANFILL:
                if (std::isnan(a.v.v)) return b;
                return a;
            default:        // atan2, mod, compare: discontinuous / ill-conditioned -> no bound
                unsupported = true;
                return unb(NAN);
        }
    }

    Dual eval(const TreeData* d, Env& env) {
        auto it = env.memo.find(d);
        if (it != env.memo.end()) return it->second;
        Dual r;
        if (auto t = std::get_if<TreeNonaryOp>(d)) {
            if (t->op == Opcode::VAR_X) r = env.x;
            else if (t->op == Opcode::VAR_Y) r = env.y;
            else if (t->op == Opcode::VAR_Z) r = env.z;
            else if (t->op == Opcode::VAR_FREE) {
                float v = 0;
                if (vars) { auto f = vars->find(d); if (f != vars->end()) v = f->second; }
                r = dconst(v);
            } else { unsupported = true; r = unb(NAN); }
        } else if (auto t = std::get_if<TreeConstant>(d)) {
            r = dconst(t->value);
        } else if (auto t = std::get_if<TreeUnaryOp>(d)) {
            r = un(t->op, eval(t->lhs.get(), env));
        } else if (auto t = std::get_if<TreeBinaryOp>(d)) {
            Dual a = eval(t->lhs.get(), env);
            Dual b = eval(t->rhs.get(), env);
            r = bin(t->op, a, b, t->rhs.get());
        } else if (auto t = std::get_if<TreeRemap>(d)) {
            Env inner;
            inner.x = eval(t->x.get(), env);
            inner.y = eval(t->y.get(), env);
            inner.z = eval(t->z.get(), env);
            r = eval(t->t.get(), inner);
            // A coordinate map that is itself undefined (NaN / inf / no bound) at this point: the composite's
            // gradient is not defined there even if the body ignores that coordinate (the chain rule through
            // the oracle multiplies 0 by NaN, the flattened plain tree drops the coordinate) -> no gradient bound.
            for (const Dual* c : {&inner.x, &inner.y, &inner.z})
                if (!std::isfinite((double)c->v.v) || !std::isfinite((double)c->v.e))
                    coordUndefined = true;      // sticky for this evaluation, see at()
        } else {
            unsupported = true;
            r = unb(NAN);
        }
        if (std::isnan((double)r.v.v)) sawNan = true;
        env.memo[d] = r;
        return r;
    }

    Dual at(const Tree& t, float x, float y, float z) {
        Env env;
        env.x = dconst(x); env.x.d[0] = cst(1);
        env.y = dconst(y); env.y.d[1] = cst(1);
        env.z = dconst(z); env.z.d[2] = cst(1);
        coordUndefined = false;
        sawNan = false;
        Dual r = eval(t.get(), env);
        if (coordUndefined) for (auto& dd : r.d) dd.e = INFINITY;
        return r;
    }
};

inline std::string efStr(const EF& e) {
    char b[96];
    snprintf(b, sizeof b, "%.17g %.6g", (double)e.v, (double)e.e);
    return b;
}

}   // namespace vo
