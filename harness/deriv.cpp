// C06 harness: derivative / Jacobian / feature evaluators of the real library.
// Reads a program file (argv[1]); prints what the library did.  Dumb on purpose: it runs the
// real code and prints results and the scratch the kernels read; all judging is done elsewhere.
#include <fstream>
#include <list>
#include "common.hpp"
using namespace vh;

struct JacPeek : public JacobianEvaluator {
    JacPeek(std::shared_ptr<Deck> d, const std::map<Tree::Id, float>& vars)
        : BaseEvaluator(d, vars), JacobianEvaluator(d, vars) {}
    float val(size_t clause, size_t col) const { return v(clause, col); }
    float der(size_t clause, int row, size_t col) const { return d(clause)(row, col); }
    size_t csimd() const { return count_simd; }
    const boost::container::small_vector<Feature, 4>& feats(size_t clause) const { return f(clause); }
    size_t rows() const { return v.rows(); }
    bool clearVars() const { return clear_vars; }
};
struct FeatPeek : public Feature {
    static const boost::container::small_vector<Eigen::Vector3f, 4>& eps(const Feature& f) {
        return f.*(&FeatPeek::epsilons);
    }
};

static std::string v3(const Eigen::Vector3f& v) { return hex(v.x()) + " " + hex(v.y()) + " " + hex(v.z()); }
static std::string feat(const Feature& f) {
    std::ostringstream o;
    auto& e = FeatPeek::eps(f);
    o << "F " << v3(f.deriv) << " " << e.size();
    for (auto& x : e) o << " " << v3(x);
    return o.str();
}
// one logged oracle query: "P <eps-in> | <e> -> <ok> <eps-out>"
static bool logPush(std::ostream& o, Feature& f, const Eigen::Vector3f& e) {
    auto& ein = FeatPeek::eps(f);
    o << " P " << ein.size();
    for (auto& x : ein) o << " " << v3(x);
    o << " " << v3(e);
    bool ok = f.push(e);
    auto& eout = FeatPeek::eps(f);
    o << " " << (ok ? 1 : 0) << " " << eout.size();
    for (auto& x : eout) o << " " << v3(x);
    return ok;
}

int main(int argc, char** argv) {
    if (argc < 2) { fprintf(stderr, "usage: deriv <program>\n"); return 2; }
    std::ifstream in(argv[1]);
    std::string line;
    TreeProg prog;
    std::shared_ptr<Deck> deck;
    std::unique_ptr<JacPeek> ev, ev2;
    std::map<const TreeData*, int> varidx;
    std::map<Tree::Id, float> varvals;

    auto slots = [&](JacPeek& e) {
        std::ostringstream o;
        o << "slots " << e.rows();
        for (size_t k = 0; k < e.rows(); ++k) o << " " << hex(e.val(k, 0));
        return o.str();
    };

    while (std::getline(in, line)) {
        auto w = split(line);
        if (w.empty()) continue;
        forceRoundNearest();
        if (w[0] == "case") {
            prog.clear(); ev.reset(); ev2.reset(); deck.reset(); varidx.clear(); varvals.clear();
            std::cout << line << "\n";
        } else if (w[0] == "n") {
            prog.exec(w);
        } else if (w[0] == "varval") {
            varvals[prog.at(w[1]).id()] = unhex(w[2]);
        } else if (w[0] == "root") {
            const Tree& t = prog.at(w[1]);
            for (size_t k = 0; k < prog.var_ids.size(); ++k)
                varidx[prog.nodes.at(prog.var_ids[k]).get()] = (int)k;
            deck = std::make_shared<Deck>(t);
            ev.reset(new JacPeek(deck, varvals));
            ev2.reset(new JacPeek(deck, varvals));
            std::cout << dumpDeck(*deck, varidx, varvals) << "\n";
            std::cout << "base " << dumpTape(*deck->tape) << "\n";
        } else if (w[0] == "deriv") {            // deriv x y z : single-point gradient + every clause's lanes
            Eigen::Vector3f p(unhex(w[1]), unhex(w[2]), unhex(w[3]));
            Eigen::Vector4f r = ev->deriv(p);
            std::cout << "deriv " << w[1] << " " << w[2] << " " << w[3] << " " << hex(r(0)) << " " << hex(r(1))
                      << " " << hex(r(2)) << " " << hex(r(3)) << "\n";
            std::cout << slots(*ev) << "\n";
            std::cout << "dlanes " << ev->rows();
            for (size_t k = 0; k < ev->rows(); ++k)
                std::cout << " " << hex(ev->der(k, 0, 0)) << " " << hex(ev->der(k, 1, 0)) << " " << hex(ev->der(k, 2, 0));
            std::cout << "\n";
            // central differences of the real value evaluator (double arithmetic on float values)
            const double h = 1.0 / 256;
            std::cout << "fd";
            for (int ax = 0; ax < 3; ++ax) {
                Eigen::Vector3f a = p, b = p;
                a(ax) = (float)(p(ax) - h); b(ax) = (float)(p(ax) + h);
                forceRoundNearest();
                double fa = ev2->value(a), fb = ev2->value(b);
                double dd = (fb - fa) / ((double)b(ax) - (double)a(ax));
                std::cout << " " << hex((float)dd);
            }
            std::cout << "\n";
        } else if (w[0] == "derivs") {          // derivs <slot0> <n> pts : batch in columns slot0.., vs single
            size_t n = atoi(w[1].c_str());
            std::vector<Eigen::Vector3f> pts(n);
            for (size_t k = 0; k < n; ++k)
                pts[k] = Eigen::Vector3f(unhex(w[2 + 3 * k]), unhex(w[3 + 3 * k]), unhex(w[4 + 3 * k]));
            for (size_t k = 0; k < n; ++k) ev->set(pts[k], k);
            auto r = ev->derivs(n);
            std::vector<Eigen::Vector4f> batch(n);
            for (size_t k = 0; k < n; ++k) batch[k] = r.col(k);
            std::cout << "derivs " << n;
            for (size_t k = 0; k < n; ++k) {
                forceRoundNearest();
                Eigen::Vector4f s = ev2->deriv(pts[k]);
                std::cout << " " << hex(batch[k](0)) << " " << hex(batch[k](1)) << " " << hex(batch[k](2)) << " "
                          << hex(batch[k](3)) << " " << hex(s(0)) << " " << hex(s(1)) << " " << hex(s(2)) << " " << hex(s(3));
            }
            std::cout << "\n";
        } else if (w[0] == "jac") {             // jac x y z : gradient w.r.t. every free variable
            Eigen::Vector3f p(unhex(w[1]), unhex(w[2]), unhex(w[3]));
            auto g = ev->gradient(p);
            std::cout << "jac " << w[1] << " " << w[2] << " " << w[3] << " " << deck->vars.left.size();
            // in deck->vars.left order (the order the packing uses): clause id, generator var index, value
            for (auto& v : deck->vars.left) {
                auto it = varidx.find(static_cast<const TreeData*>(v.second));
                std::cout << " " << v.first << " " << (it == varidx.end() ? -1 : it->second) << " " << hex(g.at(v.second));
            }
            std::cout << "\n";
            std::cout << slots(*ev) << "\n";
            std::cout << "jacpost clear " << (ev->clearVars() ? 1 : 0) << " seeds "
                      << hex(ev->der(deck->X, 0, 0)) << " " << hex(ev->der(deck->Y, 1, 0)) << " " << hex(ev->der(deck->Z, 2, 0)) << "\n";
        } else if (w[0] == "feat") {            // feat x y z : features / isInside at a (tie) point
            Eigen::Vector3f p(unhex(w[1]), unhex(w[2]), unhex(w[3]));
            // the specialised tape features_ will walk (same call it makes first)
            auto h = ev->valueAndPush(p);
            std::cout << "feat " << w[1] << " " << w[2] << " " << w[3] << " value " << hex(h.first)
                      << " csimd " << ev->csimd() << "\n";
            std::cout << "ftape " << dumpTape(*h.second) << "\n";
            std::cout << slots(*ev) << "\n";
            std::vector<Clause> cl(h.second->rbegin(), h.second->rend());
            size_t froot = h.second->root();
            h.second.reset();
            forceRoundNearest();
            auto& raw = ev->features_(p);
            std::cout << "fraw " << raw.size();
            for (auto& f : raw) std::cout << " " << feat(f);
            std::cout << "\n";
            // per-slot feature lists after the walk (leaves included)
            std::cout << "fslots " << ev->rows();
            for (size_t k = 0; k < ev->rows(); ++k) {
                std::cout << " S " << k << " " << ev->feats(k).size();
                for (auto& f : ev->feats(k)) std::cout << " " << feat(f);
            }
            std::cout << "\n";
            // oracle table: answers of the real Feature::push to the queries of every tied min/max
            std::ostringstream tab;
            size_t nq = 0;
            for (auto& c : cl) {
                if (c.op != Opcode::OP_MIN && c.op != Opcode::OP_MAX) continue;
                if (c.a == c.b || !(ev->val(c.a, 0) == ev->val(c.b, 0))) continue;
                for (auto& fa : ev->feats(c.a)) for (auto& fb : ev->feats(c.b)) {
                    Eigen::Vector3f eps = (c.op == Opcode::OP_MIN) ? Eigen::Vector3f(fb.deriv - fa.deriv)
                                                                   : Eigen::Vector3f(fa.deriv - fb.deriv);
                    if (eps.norm() == 0) { tab << " Z " << v3(eps); ++nq; continue; }
                    tab << " NZ " << v3(eps); ++nq;
                    Feature combined = fa;
                    bool ok = true;
                    for (auto& e : FeatPeek::eps(fb)) { ++nq; if (!logPush(tab, combined, e)) { ok = false; break; } }
                    if (ok) {
                        Feature x = combined; ++nq; logPush(tab, x, eps);
                        Feature y = combined; ++nq; logPush(tab, y, Eigen::Vector3f(-eps));
                    }
                }
            }
            std::cout << "otable " << nq << tab.str() << "\n";
            // features(): deduplicated derivatives
            forceRoundNearest();
            auto lst = ev->features(p);
            std::cout << "fraw2 " << ev->feats(froot).size();   // raw list of THIS call (scratch may differ)
            for (auto& f : ev->feats(froot)) std::cout << " " << feat(f);
            std::cout << "\n";
            std::cout << "flist " << lst.size();
            for (auto& d : lst) std::cout << " " << v3(d);
            std::cout << "\n";
            // isInside and the check() answers it uses at value 0
            forceRoundNearest();
            bool inside = ev->isInside(p);
            std::cout << "inside " << (inside ? 1 : 0) << " root " << froot << " checks " << ev->feats(froot).size();
            for (auto& f : ev->feats(froot))
                std::cout << " " << (f.check(f.deriv) ? 1 : 0) << " " << (f.check(Eigen::Vector3f(-f.deriv)) ? 1 : 0)
                          << " " << (f.deriv.norm() > 0 ? 1 : 0);
            std::cout << "\n";
        } else if (w[0] == "end") {
            std::cout << "end\n";
        }
    }
    return 0;
}
