// C16 harness: expressions wrapped as black-box oracles (WrapOracle, harness/oracle.hpp), embedded in
// larger expressions under remap chains, against the equivalent plain expression.
// Every `n` line is executed twice: in program O (`wrap e` builds an oracle node around e) and in
// program P (`wrap e` is just e).  The harness prints what the real evaluators return for both,
// the reference value with its error bound, and the bind/push events the wrapped oracles saw.
#include <fstream>
#include <set>

#include "oracle.hpp"
#include <sys/wait.h>
#include <unistd.h>
static const unsigned FEAT_BUDGET_S = 3;
static const unsigned CASE_BUDGET_S = 40;
#include "libfive/render/brep/mesh.hpp"
#include "libfive/render/brep/region.hpp"
#include "libfive/render/brep/settings.hpp"

using namespace vo;

static Eigen::Vector3f p3(const std::vector<std::string>& w, size_t k) {
    return Eigen::Vector3f(unhex(w[k]), unhex(w[k + 1]), unhex(w[k + 2]));
}
static std::string h3(const Eigen::Vector3f& v) { return hex(v.x()) + " " + hex(v.y()) + " " + hex(v.z()); }

struct Side {
    TreeProg prog;
    std::map<const TreeData*, float> varByNode;
    std::map<Tree::Id, float> varvals;
};

static void flushEvents() {
    auto& L = Log::get();
    std::vector<std::string> evs;
    {
        std::lock_guard<std::mutex> g(L.mu);
        evs.swap(L.events);
    }
    for (auto& e : evs) std::cout << e << "\n";
}

struct MeshStats {
    size_t verts = 0, tris = 0, unpaired = 0, degenerate = 0;
    std::vector<Eigen::Vector3f> pts;
    bool ok = false;
};
static MeshStats meshOf(const Tree& t, float R, float mf, int alg) {
    MeshStats s;
    BRepSettings st;
    st.min_feature = mf;
    st.workers = 2;
    st.alg = (BRepAlgorithm)alg;
    Region<3> r({-R, -R, -R}, {R, R, R});
    auto m = Mesh::render(t, r, st);
    if (!m) return s;
    s.ok = true;
    s.verts = m->verts.size();
    s.tris = m->branes.size();
    std::map<std::pair<uint32_t, uint32_t>, int> edges;
    std::set<uint32_t> used;
    for (auto& b : m->branes) {
        if (b(0) == b(1) || b(1) == b(2) || b(0) == b(2)) { s.degenerate++; continue; }
        for (int k = 0; k < 3; ++k) { edges[{b(k), b((k + 1) % 3)}]++; used.insert(b(k)); }
    }
    for (auto& e : edges) {
        auto r2 = edges.find({e.first.second, e.first.first});
        if (e.second != 1 || r2 == edges.end() || r2->second != 1) s.unpaired++;
    }
    for (auto i : used) s.pts.push_back(m->verts[i]);
    return s;
}
// one-sided Hausdorff distance from a to b (0 if a empty; inf if b empty and a not)
static float oneSided(const std::vector<Eigen::Vector3f>& a, const std::vector<Eigen::Vector3f>& b) {
    float worst = 0;
    for (auto& p : a) {
        float best = INFINITY;
        for (auto& q : b) best = std::min(best, (p - q).squaredNorm());
        worst = std::max(worst, best);
    }
    return std::sqrt(worst);
}

int main(int argc, char** argv) {
    if (argc < 2) { fprintf(stderr, "usage: oracle <program>\n"); return 2; }
    std::ifstream in(argv[1]);
    std::string line;
    Side O, P, Rf;     // Rf: the plain tree with flatten()/optimized() steps skipped (reference semantics keep the remap nodes)
    Tree rootO = Tree::invalid(), rootP = Tree::invalid(), rootR = Tree::invalid();
    std::shared_ptr<Deck> deck;
    std::unique_ptr<Evaluator> evO, evP;
    std::vector<Tape::Handle> stack;
    std::vector<int> stackId;
    int nextTape = 0;
    auto& L = Log::get();

    auto curId = [&]() { return "T" + std::to_string(stackId.back()); };
    auto unboundLine = [&]() {
        size_t nb = 0, nl;
        {
            std::lock_guard<std::mutex> g(L.mu);
            nl = L.live.size();
            for (auto w : L.live) nb += w->bound() ? 1 : 0;
        }
        size_t top = 0;
        for (auto& o : deck->oracles) top += OraclePeek::ctxOf(*o) ? 1 : 0;
        std::cout << "tr unbound " << nl << " " << nb << " " << top << "\n";
    };
    auto tctxLine = [&](const Tape& t, int id) {
        std::cout << "tr tctx T" << id << " " << TapeCtxPeek::nctx(t) << " " << deck->oracles.size();
        for (size_t k = 0; k < TapeCtxPeek::nctx(t); ++k) {
            OracleContext* c = TapeCtxPeek::ctx(t, k);
            std::string nm = ctxName(c);
            if (nm == "?") nm = "x";     // a TransformedOracle::Context (opaque)
            std::cout << " " << nm;
        }
        std::cout << "\n";
    };
    auto ref = [&](float x, float y, float z) {
        RefEval re;
        re.vars = &Rf.varByNode;
        auto d = re.at(rootR, x, y, z);
        // a NaN sub-expression anywhere: min/max/nanfill with a NaN operand have no defined gradient and their
        // value depends on operand order (which the optimiser chooses by address) -> no gradient bound
        if (re.sawNan) for (auto& dd : d.d) dd.e = INFINITY;
        return d;
    };

    bool inChild = false;
    // The whole program is read into memory first: parent and forked children must not share a file offset
    // (a child refilling its stream buffer would advance the parent's position in the file).
    std::vector<std::string> all;
    while (std::getline(in, line)) all.push_back(line);
    for (size_t li = 0; li < all.size(); ++li) {
        line = all[li];
        auto w = split(line);
        if (w.empty()) continue;
        forceRoundNearest();
        if (w[0] == "case" && !inChild) {
            // every case runs in a forked child under an alarm: feature enumeration, tape pushes and meshing of
            // pathological generated trees (deeply nested remaps mentioning the oracle again) can take minutes;
            // a case that does not finish is dropped ("caseskip") and counted, never judged
            std::cout.flush();
            pid_t pid = fork();
            if (pid != 0) {
                int status = 0;
                waitpid(pid, &status, 0);
                if (!(WIFEXITED(status) && WEXITSTATUS(status) == 0))
                    std::cout << "caseskip " << (w.size() > 1 ? w[1] : "?") << " "
                              << (WIFSIGNALED(status) ? WTERMSIG(status) : -1) << "\n";
                std::cout.flush();
                while (li + 1 < all.size() && all[li + 1].compare(0, 5, "case ") != 0) ++li;
                continue;
            }
            inChild = true;
            alarm(CASE_BUDGET_S);
        } else if (w[0] == "case" && inChild) {
            std::cout.flush();
            _exit(0);
        }
        if (w[0] == "case") {
            L.enabled = false;
            evO.reset(); evP.reset(); stack.clear(); stackId.clear(); deck.reset();
            rootO = Tree::invalid(); rootP = Tree::invalid(); rootR = Tree::invalid();
            O = Side(); P = Side(); Rf = Side();
            { std::lock_guard<std::mutex> g(L.mu); L.events.clear(); }
            {   // every third case uses oracles without gradient code of their own
                unsigned h = 0; if (w.size() > 1) for (char ch : w[1]) h = h * 31 + (unsigned char)ch;
                WrapOracle::inheritDerivs() = (h % 3 == 1);
            }
            std::cout << line << "\n";
        } else if (w[0] == "n") {
            if (w.size() >= 4 && w[2] == "wrap") {
                int id = atoi(w[1].c_str());
                O.prog.nodes.emplace(id, wrapTree(O.prog.at(w[3])));
                P.prog.nodes.emplace(id, P.prog.at(w[3]));
                Rf.prog.nodes.emplace(id, Rf.prog.at(w[3]));
            } else {
                O.prog.exec(w);
                P.prog.exec(w);
                if (w.size() >= 4 && (w[2] == "flat" || w[2] == "opt"))
                    Rf.prog.nodes.emplace(atoi(w[1].c_str()), Rf.prog.at(w[3]));
                else
                    Rf.prog.exec(w);
            }
        } else if (w[0] == "varval") {
            for (Side* s : {&O, &P, &Rf}) {
                const Tree& v = s->prog.at(w[1]);
                s->varvals[v.id()] = unhex(w[2]);
                s->varByNode[v.get()] = unhex(w[2]);
            }
        } else if (w[0] == "root") {
            rootO = O.prog.at(w[1]);
            rootP = P.prog.at(w[1]);
            rootR = Rf.prog.at(w[1]);
            deck = std::make_shared<Deck>(rootO);
            evO.reset(new Evaluator(deck, O.varvals));
            evP.reset(new Evaluator(rootP, P.varvals));
            stack.push_back(deck->tape);
            stackId.push_back(nextTape = 0);
            nextTape = 1;
            std::cout << "tr deck " << deck->oracles.size();
            L.keep.clear();
            for (auto& o : deck->oracles) {
                if (auto wo = dynamic_cast<WrapOracle*>(o.get())) { std::cout << " direct:" << wo->inst; L.keep.insert(wo->inst); }
                else if (auto to = dynamic_cast<TransformedOracle*>(o.get())) {
                    auto u = dynamic_cast<WrapOracle*>(underlyingOf(*to));
                    std::cout << " trans:" << (u ? u->inst : -1);
                    if (u) L.keep.insert(u->inst);
                } else std::cout << " other:-1";
            }
            std::cout << "\n";
            std::cout << "base " << dumpTape(*deck->tape) << "\n";
            tctxLine(*deck->tape, 0);
            L.enabled = true;
        } else if (w[0] == "vals") {
            size_t n = atoi(w[1].c_str());
            std::vector<Eigen::Vector3f> pts(n);
            for (size_t k = 0; k < n; ++k) pts[k] = p3(w, 2 + 3 * k);
            std::vector<float> cur(n), base(n), pv(n);
            std::cout << "tr begin eval " << curId() << "\n";
            for (size_t k = 0; k < n; ++k) evO->set(pts[k], k);
            { auto r = evO->values(n, *stack.back()); for (size_t k = 0; k < n; ++k) cur[k] = r(k); }
            flushEvents();
            std::cout << "tr end eval\n";
            unboundLine();
            L.enabled = false;
            for (size_t k = 0; k < n; ++k) evO->set(pts[k], k);
            { auto r = evO->values(n, *deck->tape); for (size_t k = 0; k < n; ++k) base[k] = r(k); }
            L.enabled = true;
            { std::lock_guard<std::mutex> g(L.mu); L.events.clear(); }
            for (size_t k = 0; k < n; ++k) evP->set(pts[k], k);
            { auto r = evP->values(n); for (size_t k = 0; k < n; ++k) pv[k] = r(k); }
            std::cout << "vals " << n;
            for (size_t k = 0; k < n; ++k) {
                auto d = ref(pts[k].x(), pts[k].y(), pts[k].z());
                std::cout << " " << hex(cur[k]) << " " << hex(base[k]) << " " << hex(pv[k]) << " " << efStr(d.v);
            }
            std::cout << "\n";
        } else if (w[0] == "val") {
            Eigen::Vector3f p = p3(w, 1);
            std::cout << "tr begin eval " << curId() << "\n";
            float cur = evO->value(p, *stack.back());
            flushEvents();
            std::cout << "tr end eval\n";
            unboundLine();
            L.enabled = false;
            forceRoundNearest();
            float base = evO->value(p, *deck->tape);
            L.enabled = true;
            float pv = evP->value(p);
            auto d = ref(p.x(), p.y(), p.z());
            std::cout << "val " << h3(p) << " " << hex(cur) << " " << hex(base) << " " << hex(pv) << " "
                      << efStr(d.v) << "\n";
        } else if (w[0] == "ivl") {
            Eigen::Vector3f lo = p3(w, 1), hi = p3(w, 4);
            size_t n = atoi(w[7].c_str());
            std::cout << "tr begin ieval T0\n";
            Interval io = evO->eval(lo, hi);
            flushEvents();
            std::cout << "tr end ieval\n";
            unboundLine();
            Interval ip = evP->eval(lo, hi);
            std::cout << "ivl " << h3(lo) << " " << h3(hi) << " " << hex(io.lower()) << " " << hex(io.upper()) << " "
                      << (io.isSafe() ? 1 : 0) << " " << hex(ip.lower()) << " " << hex(ip.upper()) << " "
                      << (ip.isSafe() ? 1 : 0) << " " << n;
            L.enabled = false;
            for (size_t k = 0; k < n; ++k) {
                Eigen::Vector3f p = p3(w, 8 + 3 * k);
                float ov = evO->value(p);
                float pv = evP->value(p);
                auto d = ref(p.x(), p.y(), p.z());
                std::cout << " " << hex(ov) << " " << hex(pv) << " " << efStr(d.v);
            }
            L.enabled = true;
            std::cout << "\n";
        } else if (w[0] == "grad") {
            size_t n = atoi(w[1].c_str());
            std::vector<Eigen::Vector3f> pts(n);
            for (size_t k = 0; k < n; ++k) pts[k] = p3(w, 2 + 3 * k);
            std::vector<Eigen::Vector4f> go(n), gp(n);
            std::cout << "tr begin eval " << curId() << "\n";
            for (size_t k = 0; k < n; ++k) evO->set(pts[k], k);
            { auto r = evO->derivs(n, *stack.back()); for (size_t k = 0; k < n; ++k) go[k] = r.col(k); }
            flushEvents();
            std::cout << "tr end eval\n";
            unboundLine();
            // the same batch asked again WITHOUT setting the points again: whatever the gradient query borrowed
            // from the oracle's stored slots must have been put back
            std::vector<float> rvo(n), rvp(n);
            L.enabled = false;
            { auto r = evO->values(n, *stack.back()); for (size_t k = 0; k < n; ++k) rvo[k] = r(k); }
            L.enabled = true;
            { std::lock_guard<std::mutex> g(L.mu); L.events.clear(); }
            for (size_t k = 0; k < n; ++k) evP->set(pts[k], k);
            { auto r = evP->derivs(n); for (size_t k = 0; k < n; ++k) gp[k] = r.col(k); }
            { auto r = evP->values(n); for (size_t k = 0; k < n; ++k) rvp[k] = r(k); }
            std::cout << "reval " << n << " " << (WrapOracle::inheritDerivs() ? 1 : 0);
            for (size_t k = 0; k < n; ++k) {
                auto d = ref(pts[k].x(), pts[k].y(), pts[k].z());
                std::cout << " " << hex(rvo[k]) << " " << hex(rvp[k]) << " " << efStr(d.v);
            }
            std::cout << "\n";
            std::cout << "grad " << n;
            for (size_t k = 0; k < n; ++k) {
                auto d = ref(pts[k].x(), pts[k].y(), pts[k].z());
                std::cout << " " << hex(go[k](0)) << " " << hex(go[k](1)) << " " << hex(go[k](2)) << " " << hex(go[k](3))
                          << " " << hex(gp[k](0)) << " " << hex(gp[k](1)) << " " << hex(gp[k](2)) << " " << hex(gp[k](3))
                          << " " << (d.amb ? 1 : 0) << " " << efStr(d.v) << " " << efStr(d.d[0]) << " "
                          << efStr(d.d[1]) << " " << efStr(d.d[2]);
            }
            std::cout << "\n";
        } else if (w[0] == "feat") {
            // Feature enumeration can blow up combinatorially (nested remaps whose coordinates mention the
            // oracle again make many exactly tied min/max clauses): run the query in a forked child under an
            // alarm; a query that does not finish is skipped and counted ("featskip"), never judged.
            Eigen::Vector3f p = p3(w, 1);
            std::cout.flush();
            pid_t pid = fork();
            if (pid == 0) {
                alarm(FEAT_BUDGET_S);
                std::ostringstream os;
                auto* old = std::cout.rdbuf(os.rdbuf());
                std::cout << "tr begin feat " << curId() << " " << (stack.back()->isTerminal() ? 1 : 0) << "\n";
                auto fo = evO->features(p, stack.back());
                flushEvents();
                std::cout << "tr end feat\n";
                unboundLine();
                auto fp = evP->features(p);
                auto d = ref(p.x(), p.y(), p.z());
                std::cout << "feat " << h3(p) << " " << (d.amb ? 1 : 0) << " " << efStr(d.v) << " " << efStr(d.d[0]) << " "
                          << efStr(d.d[1]) << " " << efStr(d.d[2]) << " o " << fo.size();
                for (auto& f : fo) std::cout << " " << h3(f);
                std::cout << " p " << fp.size();
                for (auto& f : fp) std::cout << " " << h3(f);
                std::cout << "\n";
                std::cout.rdbuf(old);
                std::cout << os.str();
                std::cout.flush();
                _exit(0);
            }
            int status = 0;
            waitpid(pid, &status, 0);
            if (!(WIFEXITED(status) && WEXITSTATUS(status) == 0))
                std::cout << "featskip " << h3(p) << " " << (WIFSIGNALED(status) ? WTERMSIG(status) : -1) << "\n";
        } else if (w[0] == "ipush") {
            Eigen::Vector3f lo = p3(w, 1), hi = p3(w, 4);
            std::cout << "tr begin ipush " << curId() << " " << (stack.back()->isTerminal() ? 1 : 0) << "\n";
            auto r = evO->intervalAndPush(lo, hi, stack.back());
            flushEvents();
            bool same = r.second == stack.back();
            int id = same ? stackId.back() : nextTape++;
            std::cout << "tr end ipush T" << id << " " << (same ? 1 : 0) << " " << (r.second->isTerminal() ? 1 : 0) << "\n";
            unboundLine();
            tctxLine(*r.second, id);
            std::cout << "ipush " << h3(lo) << " " << h3(hi) << " res " << hex(r.first.lower()) << " "
                      << hex(r.first.upper()) << " " << (r.first.isSafe() ? 1 : 0) << " same " << (same ? 1 : 0);
            {   // the plain tree's interval on the same box (to tell oracle-specific misses from shared ones)
                Interval ip = evP->eval(lo, hi);
                std::cout << " pres " << hex(ip.lower()) << " " << hex(ip.upper()) << " " << (ip.isSafe() ? 1 : 0) << "\n";
            }
            std::cout << "pushed " << dumpTape(*r.second) << "\n";
            stack.push_back(r.second);
            stackId.push_back(id);
        } else if (w[0] == "ppush") {
            Eigen::Vector3f p = p3(w, 1);
            std::cout << "tr begin ppush " << curId() << " " << (stack.back()->isTerminal() ? 1 : 0) << "\n";
            auto r = evO->valueAndPush(p, stack.back());
            flushEvents();
            bool same = r.second == stack.back();
            int id = same ? stackId.back() : nextTape++;
            std::cout << "tr end ppush T" << id << " " << (same ? 1 : 0) << " " << (r.second->isTerminal() ? 1 : 0) << "\n";
            unboundLine();
            tctxLine(*r.second, id);
            std::cout << "ppush " << h3(p) << " res " << hex(r.first) << " same " << (same ? 1 : 0) << "\n";
            std::cout << "pushed " << dumpTape(*r.second) << "\n";
            stack.push_back(r.second);
            stackId.push_back(id);
        } else if (w[0] == "pop") {
            if (stack.size() > 1) { stack.pop_back(); stackId.pop_back(); }
            std::cout << "tr pop " << curId() << "\n";
        } else if (w[0] == "jac") {
            // jac <t> <X> <Y> <Z> n pts : gradient of (oracle t).remap(X,Y,Z) vs its ingredients
            const Tree& to = O.prog.at(w[1]);
            const Tree& tp = P.prog.at(w[1]);
            Tree X = P.prog.at(w[2]), Y = P.prog.at(w[3]), Z = P.prog.at(w[4]);
            Tree tr = to.remap(O.prog.at(w[2]), O.prog.at(w[3]), O.prog.at(w[4]));
            size_t n = atoi(w[5].c_str());
            L.enabled = false;
            Evaluator eT(tr), eX(X), eY(Y), eZ(Z), eE(tp);
            std::cout << "jac " << n;
            for (size_t k = 0; k < n; ++k) {
                Eigen::Vector3f p = p3(w, 6 + 3 * k);
                Eigen::Vector4f gx = eX.deriv(p), gy = eY.deriv(p), gz = eZ.deriv(p);
                Eigen::Vector3f q(gx(3), gy(3), gz(3));
                Eigen::Vector4f ge = eE.deriv(q);
                Eigen::Vector4f gt = eT.deriv(p);
                auto pr = [&](const Eigen::Vector4f& g) {
                    std::cout << " " << hex(g(0)) << " " << hex(g(1)) << " " << hex(g(2)) << " " << hex(g(3));
                };
                pr(gx); pr(gy); pr(gz); pr(ge); pr(gt);
                // gradient not unique at this point (tie / kink anywhere in the composite)?
                RefEval re;
                auto d = re.at(tp.remap(X, Y, Z), p.x(), p.y(), p.z());
                // ... or some sub-expression undefined (NaN) there: min/max with a NaN operand have no gradient
                std::cout << " " << ((d.amb || re.sawNan) ? 1 : 0);
            }
            std::cout << "\n";
            L.enabled = true;
        } else if (w[0] == "mesh") {
            float R = unhex(w[1]), mf = unhex(w[2]);
            int alg = atoi(w[3].c_str());
            L.enabled = false;
            auto mo = meshOf(rootO, R, mf, alg);
            auto mp = meshOf(rootP, R, mf, alg);
            L.enabled = true;
            { std::lock_guard<std::mutex> g(L.mu); L.events.clear(); }
            float hop = oneSided(mo.pts, mp.pts), hpo = oneSided(mp.pts, mo.pts);
            std::cout << "mesh " << w[1] << " " << w[2] << " " << alg << " o " << (mo.ok ? 1 : 0) << " " << mo.verts << " "
                      << mo.tris << " " << mo.unpaired << " " << mo.degenerate << " p " << (mp.ok ? 1 : 0) << " "
                      << mp.verts << " " << mp.tris << " " << mp.unpaired << " " << mp.degenerate << " h " << hop << " "
                      << hpo << "\n";
            unboundLine();
        } else if (w[0] == "end") {
            std::cout << "end\n";
        }
        std::cout.flush();
    }
    if (inChild) { std::cout.flush(); _exit(0); }
    return 0;
}
