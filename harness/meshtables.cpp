// Dumps the tables libfive COMPUTES at start-up (MarchingTable<3>, MarchingTable<2>) from the
// freshly built library, for tools/translate_meshtables.py.  Prints, judges nothing.
//   v3 <mask> <npatches> { <nedges> {a b}* }*
//   e3 <a> <b> <edge id or -1>
//   p3 <mask> <24 ints>
//   (same with v2 / e2 / p2 for the 2D table)
#include <iostream>

#include "libfive/render/brep/dc/marching.hpp"

using namespace libfive;

template <unsigned N>
void dumpTable(const char* tag) {
    const unsigned nv = ipow(2, N);            // corners
    const unsigned nmask = ipow(2, nv);
    for (unsigned m = 0; m < nmask; ++m) {
        const auto& ps = MarchingTable<N>::v(CornerIndex(m));
        std::cout << "v" << tag << " " << m;
        // raw dump: every patch slot, every edge slot (terminators included)
        std::cout << " " << ps.size() << " " << ps[0].size();
        for (const auto& p : ps)
            for (const auto& e : p) std::cout << " " << e.first << " " << e.second;
        std::cout << "\n";
    }
    for (unsigned a = 0; a < nv; ++a) {
        const auto& row = MarchingTable<N>::e(CornerIndex(a));
        std::cout << "e" << tag << " " << a;
        for (auto x : row) std::cout << " " << x;
        std::cout << "\n";
    }
    for (unsigned m = 0; m < nmask; ++m) {
        const auto& row = MarchingTable<N>::p(CornerIndex(m));
        std::cout << "p" << tag << " " << m;
        for (auto x : row) std::cout << " " << x;
        std::cout << "\n";
    }
}

int main() {
    dumpTable<3>("3");
    dumpTable<2>("2");
    return 0;
}
