// C03 / C04 harness: renders generated solids with the real library (all three meshing
// algorithms), collects what the meshers dumped through the LIBFIVE_VERIF hooks (every tet
// marched, every triangle pushed with its three tet edges, every DC quad) and prints that
// next to the real mesh.  Dumb on purpose: it prints, the judging is done elsewhere
// (Lean driver vd-c03 / vd-c04 and the oracle in tools/checks/c03.py, c04.py).
//
// Program (file argv[1] or stdin):
//   case <id>
//   n <id> ...                    tree program lines (harness/common.hpp TreeProg)
//   root <id>
//   region x0 y0 z0 x1 y1 z1
//   probe x y z                   (any number) points for the winding-number oracle
//   search ax ay az bx by bz      run the real SimplexMesher::searchEdge ("search") and HybridMesher::searchEdge
//        ("hsearch") on this segment; each prints
//        search <case> t_real offset z changes f(a) f(b) |b-a| slope f(bracket lo) f(bracket hi)
//   render <alg:dc|simplex|hybrid> <min_feature> <max_err> <workers> <vol:0|1> <dump:0|1>
//   end
// Output per render:
//   render <case> <alg> <mf> <max_err> <workers> <vol> nverts ntris ntets ntrirec nquads
//   t v0 v1 v2 v3 mask level | r a0 b0 s0 a1 b1 s1 a2 b2 s2 | q v0 v1 v2 v3 axisD choice
//   c e c1 c2 l0 t0 l1 t1 l2 t2 l3 t3   edge / corner vertex ids and (leaf level, type) of the 4 cells of a `load`
//                                       call, printed only if one of the cells is coarser than the finest level
//   v x y z f        vertex position and reference field value (double interpreter, not libfive)
//   b i j k          triangle
//   w i x y z f wn   probe i: reference field value and winding number (signed solid angle / 4pi)
//   endrender
#include <algorithm>
#include <chrono>
#include <fstream>
#include <mutex>

#include "common.hpp"
#include "libfive/render/brep/mesh.hpp"
#include "libfive/render/brep/region.hpp"
#include "libfive/render/brep/settings.hpp"
#include "libfive/render/brep/per_thread_brep.hpp"
#include "libfive/render/brep/simplex/simplex_mesher.hpp"
#include "libfive/render/brep/hybrid/hybrid_mesher.hpp"
#include "libfive/render/brep/vol/vol_worker_pool.hpp"
#include "libfive/verif.hpp"

using namespace libfive;

// ------------------------------------------------------------------ hook collection
struct Dump {
    std::mutex mut;
    std::vector<std::array<uint64_t, 6>> tets;
    std::vector<std::array<uint64_t, 9>> tris;
    std::vector<std::array<uint64_t, 6>> quads;
    std::vector<std::array<uint64_t, 11>> cells;
    void clear() { tets.clear(); tris.clear(); quads.clear(); cells.clear(); }
};
static Dump dump;

static void hook(int site, int64_t a, int64_t b, const void* p) {
    if (site == verif::SITE_TET) {
        auto w = static_cast<const uint64_t*>(p);
        std::lock_guard<std::mutex> g(dump.mut);
        if (a == 0) dump.tets.push_back({w[0], w[1], w[2], w[3], w[4], (uint64_t)b});
        else if (a == 2) dump.cells.push_back({w[0], w[1], w[2], w[3], w[4], w[5], w[6], w[7], w[8], w[9], w[10]});
        else dump.tris.push_back({w[0], w[1], w[2], w[3], w[4], w[5], w[6], w[7], w[8]});
    } else if (site == verif::SITE_QUAD) {
        auto w = static_cast<const uint64_t*>(p);
        std::lock_guard<std::mutex> g(dump.mut);
        dump.quads.push_back({w[0], w[1], w[2], w[3], w[4], w[5]});
    }
}

// ------------------------------------------------------------------ reference field (double)
// Interprets the same program lines as TreeProg, independently of libfive's evaluators.
struct RefProg {
    struct Node { int kind; double c; int a, b; std::string op; };   // kind 0 const 1 x 2 y 3 z 4 un 5 bin
    std::map<int, Node> nodes;
    std::vector<int> order;
    bool ok = true;
    void exec(const std::vector<std::string>& w) {
        int id = atoi(w[1].c_str());
        const std::string& k = w[2];
        Node n{0, 0, 0, 0, ""};
        if (k == "const") { n.kind = 0; n.c = (double)vh::unhex(w[3]); }
        else if (k == "x") n.kind = 1;
        else if (k == "y") n.kind = 2;
        else if (k == "z") n.kind = 3;
        else if (k == "un") { n.kind = 4; n.op = w[3]; n.a = atoi(w[4].c_str()); }
        else if (k == "bin") { n.kind = 5; n.op = w[3]; n.a = atoi(w[4].c_str()); n.b = atoi(w[5].c_str()); }
        else { ok = false; return; }
        nodes[id] = n;
        order.push_back(id);
    }
    double eval(int root, double x, double y, double z) const {
        std::map<int, double> v;
        for (int id : order) {
            const Node& n = nodes.at(id);
            double r = 0;
            switch (n.kind) {
                case 0: r = n.c; break;
                case 1: r = x; break;
                case 2: r = y; break;
                case 3: r = z; break;
                case 4: {
                    double a = v[n.a];
                    if (n.op == "neg") r = -a; else if (n.op == "abs") r = fabs(a);
                    else if (n.op == "square") r = a * a; else if (n.op == "sqrt") r = sqrt(a);
                    else if (n.op == "exp") r = exp(a); else if (n.op == "log") r = log(a);
                    else r = NAN;
                    break; }
                case 5: {
                    double a = v[n.a], b = v[n.b];
                    if (n.op == "add") r = a + b; else if (n.op == "sub") r = a - b;
                    else if (n.op == "mul") r = a * b; else if (n.op == "div") r = a / b;
                    else if (n.op == "min") r = std::min(a, b); else if (n.op == "max") r = std::max(a, b);
                    else r = NAN;
                    break; }
            }
            v[id] = r;
            if (id == root) return r;
        }
        return NAN;
    }
    void clear() { nodes.clear(); order.clear(); ok = true; }
};

// ------------------------------------------------------------------ winding number
static double winding(const Mesh& m, const Eigen::Vector3d& p) {
    double total = 0;
    for (const auto& t : m.branes) {
        Eigen::Vector3d a = m.verts[t[0]].cast<double>() - p;
        Eigen::Vector3d b = m.verts[t[1]].cast<double>() - p;
        Eigen::Vector3d c = m.verts[t[2]].cast<double>() - p;
        double la = a.norm(), lb = b.norm(), lc = c.norm();
        double num = a.dot(b.cross(c));
        double den = la * lb * lc + a.dot(b) * lc + a.dot(c) * lb + b.dot(c) * la;
        total += 2 * atan2(num, den);
    }
    return total / (4 * M_PI);
}

struct SearchPeek : public SimplexMesher {
    using SimplexMesher::SimplexMesher;
    using SimplexMesher::searchEdge;
};
struct HybridSearchPeek : public HybridMesher {
    using HybridMesher::HybridMesher;
    using HybridMesher::searchEdge;
};

int main(int argc, char** argv) {
    std::ifstream file;
    if (argc > 1) file.open(argv[1]);
    std::istream& in = (argc > 1) ? static_cast<std::istream&>(file) : std::cin;
    verif::point_fn.store(hook);

    vh::TreeProg prog;
    RefProg ref;
    std::string cs = "?";
    int root = -1;
    Region<3>::Pt lo(-1, -1, -1), hi(1, 1, 1);
    std::vector<Eigen::Vector3d> probes;
    std::string line;
    char buf[256];
    while (std::getline(in, line)) {
        auto w = vh::split(line);
        if (w.empty()) continue;
        if (w[0] == "case") {
            prog.clear(); ref.clear(); probes.clear(); cs = w[1]; root = -1;
            std::cout << "case " << cs << "\n";
        } else if (w[0] == "n") {
            prog.exec(w);
            ref.exec(w);
        } else if (w[0] == "root") {
            root = atoi(w[1].c_str());
        } else if (w[0] == "region") {
            lo = Region<3>::Pt(atof(w[1].c_str()), atof(w[2].c_str()), atof(w[3].c_str()));
            hi = Region<3>::Pt(atof(w[4].c_str()), atof(w[5].c_str()), atof(w[6].c_str()));
        } else if (w[0] == "probe") {
            probes.push_back(Eigen::Vector3d(atof(w[1].c_str()), atof(w[2].c_str()), atof(w[3].c_str())));
        } else if (w[0] == "search") {
            // the real edge search on segment a (inside) -> b (outside)
            vh::forceRoundNearest();
            Eigen::Vector3d a(atof(w[1].c_str()), atof(w[2].c_str()), atof(w[3].c_str()));
            Eigen::Vector3d b(atof(w[4].c_str()), atof(w[5].c_str()), atof(w[6].c_str()));
            Tree t = prog.nodes.at(root);
            // both copies of the search: SimplexMesher::searchEdge ("search") and
            // HybridMesher::searchEdge ("hsearch")
            for (int which = 0; which < 2; ++which) {
            std::atomic<uint32_t> counter(1);
            PerThreadBRep<3> brep(counter);
            Evaluator ev(t.optimized());
            if (which == 0) {
                SearchPeek sp(brep, &ev);
                sp.searchEdge(a, b, ev.getDeck()->tape);
            } else {
                HybridSearchPeek sp(brep, &ev);
                sp.searchEdge(a, b, ev.getDeck()->tape);
            }
            Eigen::Vector3d v = brep.verts.at(0).cast<double>();
            // parameter of the returned vertex along the segment (least squares)
            double tpar = (v - a).dot(b - a) / (b - a).squaredNorm();
            double off = ((v - a) - tpar * (b - a)).norm();
            // reference: sign pattern of the double field along the segment
            auto f = [&](double s) { Eigen::Vector3d q = a + s * (b - a); return ref.eval(root, q.x(), q.y(), q.z()); };
            int changes = 0;
            const int NS = 3000;
            bool prev = f(0) > 0;
            for (int i = 1; i <= NS; ++i) { bool cur = f(i / (double)NS) > 0; changes += (cur != prev); prev = cur; }
            double zl = 0, zh = 1;     // bisection for the (first) crossing
            if (changes >= 1) {
                bool s0 = f(0) > 0;
                // bracket the first change on the coarse grid, then bisect
                for (int i = 1; i <= NS; ++i) { if ((f(i / (double)NS) > 0) != s0) { zl = (i - 1) / (double)NS; zh = i / (double)NS; break; } }
                for (int i = 0; i < 60; ++i) { double mid = (zl + zh) / 2; if ((f(mid) > 0) == s0) zl = mid; else zh = mid; }
            }
            const double zmid = (zl + zh) / 2;
            const double wbr = 1.0 / 50625.0;       // (POINTS_PER_SEARCH - 1)^SEARCH_COUNT, see C04.search_constants
            const double slope = (f(zmid + 1e-4) - f(zmid - 1e-4)) / 2e-4;
            snprintf(buf, sizeof buf, "%s %s %.17g %.3g %.17g %d %.9g %.9g %.9g %.9g %.9g %.9g", which == 0 ? "search" : "hsearch", cs.c_str(), tpar, off,
                     zmid, changes, f(0), f(1), (b - a).norm(), slope, f(tpar - wbr / 2), f(tpar + wbr / 2));
            std::cout << buf << "\n";
            }
        } else if (w[0] == "render") {
            vh::forceRoundNearest();
            BRepSettings s;
            s.alg = (w[1] == "dc") ? DUAL_CONTOURING : (w[1] == "simplex") ? ISO_SIMPLEX : HYBRID;
            s.min_feature = atof(w[2].c_str());
            s.max_err = atof(w[3].c_str());
            s.workers = atoi(w[4].c_str());
            bool use_vol = w[5] == "1";
            bool do_dump = w.size() < 7 || w[6] == "1";
            Region<3> r(lo, hi);
            Tree t = prog.nodes.at(root);
            Root<VolTree> vol;
            if (use_vol) {
                BRepSettings vs;
                vs.min_feature = s.min_feature * 4;
                vs.workers = s.workers;
                vol = VolWorkerPool::build(t, r, vs);
                s.vol = vol.get();
            }
            dump.clear();
            auto t0 = std::chrono::steady_clock::now();
            auto m = Mesh::render(t, r, s);
            double ms = std::chrono::duration<double, std::milli>(std::chrono::steady_clock::now() - t0).count();
            if (!m) {
                std::cout << "render " << cs << " " << w[1] << " " << w[2] << " " << w[3] << " " << w[4] << " " << w[5]
                          << " null\nendrender\n";
                continue;
            }
            std::cout << "render " << cs << " " << w[1] << " " << w[2] << " " << w[3] << " " << w[4] << " " << w[5]
                      << " " << m->verts.size() << " " << m->branes.size() << " " << dump.tets.size() << " "
                      << dump.tris.size() << " " << dump.quads.size() << " " << (int)ms << "\n";
            if (do_dump) {
                for (auto& x : dump.tets)
                    std::cout << "t " << x[0] << " " << x[1] << " " << x[2] << " " << x[3] << " " << x[4] << " " << x[5] << "\n";
                for (auto& x : dump.tris) {
                    std::cout << "r";
                    for (auto y : x) std::cout << " " << y;
                    std::cout << "\n";
                }
                for (auto& x : dump.cells) {
                    // only edges with a coarser (leaf level > 0) real cell among the four are of interest
                    bool coarse = false;
                    for (int j = 0; j < 4; ++j) coarse |= (x[3 + 2 * j] > 0 && x[3 + 2 * j] < 1000);
                    if (!coarse) continue;
                    std::cout << "c";
                    for (auto y : x) std::cout << " " << y;
                    std::cout << "\n";
                }
                for (auto& x : dump.quads)
                    std::cout << "q " << x[0] << " " << x[1] << " " << x[2] << " " << x[3] << " " << x[4] << " " << x[5] << "\n";
            }
            for (size_t i = 0; i < m->verts.size(); ++i) {
                const auto& v = m->verts[i];
                double f = (i == 0) ? 0.0 : ref.eval(root, v.x(), v.y(), v.z());
                snprintf(buf, sizeof buf, "v %.9g %.9g %.9g %.6g", v.x(), v.y(), v.z(), f);
                std::cout << buf << "\n";
            }
            for (auto& b : m->branes) std::cout << "b " << b[0] << " " << b[1] << " " << b[2] << "\n";
            for (size_t i = 0; i < probes.size(); ++i) {
                const auto& p = probes[i];
                snprintf(buf, sizeof buf, "w %zu %.9g %.9g %.9g %.9g %.6f", i, p.x(), p.y(), p.z(),
                         ref.eval(root, p.x(), p.y(), p.z()), winding(*m, p));
                std::cout << buf << "\n";
            }
            std::cout << "endrender\n";
        } else if (w[0] == "end") {
            std::cout << "end " << cs << "\n";
        }
    }
    return 0;
}
