// Prefix shape expressions for the C11 / C20 harnesses (tokens separated by blanks):
//   S r cx cy cz          sphere
//   B x0 y0 z0 x1 y1 z1   axis-aligned box
//   C r cx cy             infinite cylinder along z
//   T R r                 torus around z
//   G s t                 gyroid-like  sin(sx)cos(sy)+sin(sy)cos(sz)+sin(sz)cos(sx) - t
//   E / F                 empty (constant 1) / full (constant -1)
//   U a b / I a b / D a b union / intersection / difference
//   O d a                 offset (a - d)
//   H d a                 shell:  max(a, -(a + d))
#pragma once
#include <string>
#include <vector>

#include "libfive/tree/tree.hpp"

namespace shapes {
using libfive::Tree;

inline double num(const std::vector<std::string>& w, size_t& pos) { return atof(w.at(pos++).c_str()); }

inline Tree parse(const std::vector<std::string>& w, size_t& pos) {
    const std::string k = w.at(pos++);
    auto X = Tree::X(), Y = Tree::Y(), Z = Tree::Z();
    if (k == "S") {
        double r = num(w, pos), cx = num(w, pos), cy = num(w, pos), cz = num(w, pos);
        return sqrt(square(X - Tree(cx)) + square(Y - Tree(cy)) + square(Z - Tree(cz))) - Tree(r);
    } else if (k == "B") {
        double x0 = num(w, pos), y0 = num(w, pos), z0 = num(w, pos);
        double x1 = num(w, pos), y1 = num(w, pos), z1 = num(w, pos);
        return max(max(max(Tree(x0) - X, X - Tree(x1)), max(Tree(y0) - Y, Y - Tree(y1))),
                   max(Tree(z0) - Z, Z - Tree(z1)));
    } else if (k == "C") {
        double r = num(w, pos), cx = num(w, pos), cy = num(w, pos);
        return sqrt(square(X - Tree(cx)) + square(Y - Tree(cy))) - Tree(r);
    } else if (k == "T") {
        double R = num(w, pos), r = num(w, pos);
        return sqrt(square(sqrt(square(X) + square(Y)) - Tree(R)) + square(Z)) - Tree(r);
    } else if (k == "G") {
        double s = num(w, pos), t = num(w, pos);
        auto x = X * Tree(s), y = Y * Tree(s), z = Z * Tree(s);
        return sin(x) * cos(y) + sin(y) * cos(z) + sin(z) * cos(x) - Tree(t);
    } else if (k == "E") {
        return Tree(1.0f);
    } else if (k == "F") {
        return Tree(-1.0f);
    } else if (k == "U") { auto a = parse(w, pos); auto b = parse(w, pos); return min(a, b); }
    else if (k == "I") { auto a = parse(w, pos); auto b = parse(w, pos); return max(a, b); }
    else if (k == "D") { auto a = parse(w, pos); auto b = parse(w, pos); return max(a, -b); }
    else if (k == "O") { double d = num(w, pos); auto a = parse(w, pos); return a - Tree(d); }
    else if (k == "H") { double d = num(w, pos); auto a = parse(w, pos); return max(a, -(a + Tree(d))); }
    fprintf(stderr, "bad shape token %s\n", k.c_str());
    abort();
}
}   // namespace shapes
